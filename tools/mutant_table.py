#!/usr/bin/env python3
"""Writes /verif/seeded/README.md: one line per seeded change (what it is, which check caught it, at which tier)."""
import os, re, json
root='/verif/seeded'
res={}
for l in open(f'{root}/RESULTS.txt'):
    i,_,r=l.partition(' ')
    res[i]=r.strip()
rows=[]
for d in sorted(os.listdir(root)):
    p=f'{root}/{d}'
    if not os.path.isdir(p): continue
    meta=json.load(open(f'{p}/meta.json'))
    title=''
    try:
        for l in open(f'{p}/notes.md'):
            l=l.strip().lstrip('#').strip().strip('*').strip()
            if l and not l.lower().startswith('notes'):
                title=l; break
    except FileNotFoundError: pass
    title=re.sub(r'\s+',' ',title)[:150]
    r=res.get(d,'not run')
    m=re.match(r'(caught-\w+|missed|inconclusive-\w+)[^:]*:?\s*(.*)',r)
    verdict,detail=(m.group(1),m.group(2)) if m else (r,'')
    detail=re.sub(r' at .*','',detail)[:90]
    rows.append((d,meta['property'],', '.join(os.path.basename(f) for f in meta['files']),title,verdict,detail))
out=['# Seeded changes (sub-agent produced, each confirmed in a scratch worktree: compiles, the 411 pinned tests pass, its demo fails with the change and passes without)','',
     'Applied one at a time to a scratch worktree of /repo HEAD by `tools/seeded.sh`, which runs the quick check of the property the change was written against and, if that misses, the thorough one.','',
     '| id | property | file | change (first line of the author\'s notes) | verdict | first violated obligation |','|---|---|---|---|---|---|']
for r in rows: out.append('| '+' | '.join(x.replace('|','/') for x in r)+' |')
c=sum(1 for r in rows if r[4].startswith('caught-quick')); t=sum(1 for r in rows if r[4].startswith('caught-thorough')); i=sum(1 for r in rows if r[4].startswith('inconclusive')); m=sum(1 for r in rows if r[4]=='missed')
out+=['',f'Totals: {len(rows)} changes: {c} caught by the quick check, {t} only by the thorough check, {i} inconclusive (exit 2: code outside the stub list), {m} missed.']
open(f'{root}/README.md','w').write('\n'.join(out)+'\n')
print(out[-1])
