#!/bin/bash
# Confirms a sub-agent's seeded change in its scratch worktree and installs it under /verif/seeded/<id>/.
# usage: tools/confirm_mutant.sh C04 A [basedir=/tmp/mut] [letter-in-id=A]
p=$1; x=$2; base=${3:-/tmp/mut}; y=${4:-$x}; wt=$base/$p; out=$base/out/$p/$x; id=$p-$y
export GOFLAGS=-mod=mod GOPROXY=off GOSUMDB=off GOTOOLCHAIN=local
[ -f $out/patch.diff ] || { echo "$id: no patch"; exit 1; }
cd $wt && git checkout -q -- . && git clean -fdq
place=$(head -1 $out/demo_test.go | sed 's/.*place at: *//' | tr -d '\r ')
[ -n "$place" ] || { echo "$id: no place line"; exit 1; }
git apply $out/patch.diff || { echo "$id: patch does not apply"; exit 1; }
if git diff --name-only | grep -q "_test.go"; then echo "$id: patch touches tests"; git checkout -q -- .; exit 1; fi
go build ./... || { echo "$id: does not build"; git checkout -q -- .; exit 1; }
t=$(go test -vet=off -count=1 ./... 2>&1 | grep -v "^ok\|no test files")
[ -z "$t" ] || { echo "$id: existing tests FAIL with the change:"; echo "$t" | head -5; git checkout -q -- .; exit 1; }
cp $out/demo_test.go $place
pkgdir=$(dirname $place)
d1=$(go test -vet=off -count=1 ./$pkgdir 2>&1); r1=$?
git checkout -q -- .
d2=$(go test -vet=off -count=1 ./$pkgdir 2>&1); r2=$?
rm -f $place; git clean -fdq
if [ $r1 -ne 0 ] && [ $r2 -eq 0 ]; then
  mkdir -p /verif/seeded/$id
  cp $out/patch.diff /verif/seeded/$id/patch.diff
  cp $out/demo_test.go /verif/seeded/$id/demo_test.go
  cp $out/notes.md /verif/seeded/$id/notes.md 2>/dev/null
  python3 - <<PY
import json
json.dump({"id":"$id","property":"$p","demo_place":"$place",
 "needs":"see notes.md (written by the sub-agent that produced the change)",
 "confirmed":"scratch worktree $wt: patch applies, go build ok, full existing suite passes with the change, demo fails with the change (exit $r1) and passes without it (exit $r2)",
 "files":[l.split()[-1] for l in open("$out/patch.diff") if l.startswith("+++ ")]},
 open("/verif/seeded/$id/meta.json","w"),indent=1)
PY
  echo "$id: CONFIRMED (files: $(grep '^+++ ' $out/patch.diff | sed 's/+++ b\///' | tr '\n' ' '))"
else
  echo "$id: NOT confirmed (with change rc=$r1, without rc=$r2)"; echo "$d1" | tail -3; echo "$d2" | tail -3
fi
