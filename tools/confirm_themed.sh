#!/bin/bash
# usage: tools/confirm_themed.sh V6 [basedir=/tmp/mut5]  - confirms A and B of a themed round and sets meta.property from notes.md line 1
t=$1; base=${2:-/tmp/mut5}
for x in A B; do
  /verif/tools/confirm_mutant.sh $t $x $base || continue
  d=/verif/seeded/$t-$x
  [ -d $d ] || continue
  python3 - $d $t <<'PY'
import json,sys,re
d,t=sys.argv[1],sys.argv[2]
m=json.load(open(d+'/meta.json'))
first=open(d+'/notes.md').readline()
g=re.search(r'C\d\d',first)
m['property']=g.group(0) if g else '??'
m['theme']=t
json.dump(m,open(d+'/meta.json','w'),indent=1)
print(d,'property',m['property'])
PY
done
