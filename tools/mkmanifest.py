#!/usr/bin/env python3
"""Regenerates /verif/MANIFEST.json from the table below and /verif/harness/props.txt (which properties have harnesses)."""
import json, re, sys

GO = "GOFLAGS=-mod=mod GOPROXY=off GOSUMDB=off GOTOOLCHAIN=local"
props = [json.loads(l) for l in open('/verif/properties.jsonl')]
registered = set()
for line in open('/verif/harness/props.txt'):
    line = line.strip()
    if not line or line.startswith('#'):
        continue
    for p in line.split()[0].split(','):
        registered.add(p)

# per property: (level text, note). Only properties listed here AND present in props.txt are claimed.
claims = json.load(open('/verif/tools/claims.json'))

checks, na = [], []
for p in props:
    pid = p['id']
    if pid in claims and pid in registered and not claims[pid].get('not_applicable'):
        c = claims[pid]
        checks.append({
            "property_id": pid,
            "quick_cmd": f"/verif/bin/gosym check --property {pid} --tier quick",
            "thorough_cmd": f"/verif/bin/gosym check --property {pid} --tier thorough",
            "evidence_file": f"/verif/evidence/{pid}.json",
            "replay_cmd_template": "/verif/bin/gosym replay {path}",
            "engine": "gosym",
            "level_claimed": {"category": "model_checking", "text": c['text'], "design_ref": c.get('design_ref', 'DESIGN.md section 4')},
            "level_note": c['note'],
            "technique": c.get('technique', "bounded symbolic execution of the real go/ssa code into SMT (z3): symbolic pre-state satisfying the representation invariant + one real operation with unconstrained arguments; obligations decided by the solver, counterexamples replayed natively"),
        })
    else:
        reason = claims.get(pid, {}).get('reason', "check not built yet (work in progress; see DESIGN.md section 9 build order)")
        na.append({"property_id": pid, "reason": reason})

m = {
    "version": 1,
    "setup_cmd": f"cd /verif/engine && {GO} go build -o /verif/bin/gosym .",
    "hooks": {
        "guard": "verif",
        "enable": "none needed: harness code is injected with go's -overlay (go/packages Overlay for the engine, `go test -overlay` for native replay); /repo carries no hook commits",
        "baseline_off_cmd": "cd /repo && go test -vet=off -count=1 ./...",
        "source_commits": [],
        "add_only": True,
    },
    "engines": [{
        "name": "gosym", "path": "/verif/engine",
        "serves_properties": [c['property_id'] for c in checks],
        "kind_free_text": "symbolic executor over go/ssa (x/tools v0.29.0, generics instantiated) of /repo's current source, encoding into SMT-LIB2 for z3 -in; stateless parallel path exploration; lazy symbolic pre-states with summaries; native replay of solver models with go test -overlay",
    }],
    "checks": checks,
    "not_applicable": na,
    "notes": "Every check is a bounded claim; bounds, functions encoded, queries and solver time are in the evidence file written by the run. Harness registry: /verif/harness/props.txt. Known findings: /verif/known_findings.json.",
}
json.dump(m, open('/verif/MANIFEST.json', 'w'), indent=1)
print("claimed:", [c['property_id'] for c in checks], "not claimed:", [n['property_id'] for n in na])
