#!/bin/bash
# Self-test: apply each seeded change under /verif/seeded/<id>/patch.diff to a scratch worktree of /repo's HEAD (outside
# /repo and /verif, removed at the end), run the check of the property it breaks against that worktree (quick, then
# thorough if quick misses it) and record the outcome in /verif/seeded/RESULTS.txt. Not part of any MANIFEST command.
# Usage: tools/seeded.sh [id ...]      (the same can be done on /repo itself: git -C /repo apply <patch>; run the
# check; git -C /repo checkout -- .)
cd /verif
export GOFLAGS=-mod=mod GOPROXY=off GOSUMDB=off GOTOOLCHAIN=local
ids="$@"
[ -z "$ids" ] && ids=$(ls seeded | grep -v RESULTS)
wt=$(mktemp -d /tmp/seedrepo.XXXX); rmdir $wt
git -C /repo worktree add -q --detach $wt HEAD || exit 2
scratch=$(mktemp -d /tmp/seedout.XXXX)
trap 'git -C /repo worktree remove --force $wt; rm -rf $scratch' EXIT
for id in $ids; do
  d=seeded/$id
  [ -f $d/patch.diff ] || continue
  prop=$(python3 -c "import json;print(json.load(open('$d/meta.json'))['property'])")
  git -C $wt checkout -q -- . ; git -C $wt clean -fdq
  git -C $wt apply /verif/$d/patch.diff || { echo "$id: patch does not apply"; continue; }
  res=missed
  for tier in ${TIERS:-quick thorough}; do
    t0=$(date +%s)
    out=$(timeout 5400 ./bin/gosym check --repo $wt --out $scratch --property $prop --tier $tier 2>&1)
    rc=$?
    t1=$(date +%s)
    if [ $rc -eq 1 ]; then res="caught-$tier ($((t1-t0))s): $(echo "$out" | grep 'violated:' | head -1 | sed 's/cfg=.*//; s/^ *violated: //')"; break; fi
    if [ $rc -eq 2 ]; then res="inconclusive-$tier: $(echo "$out" | grep 'UNCONFIRMED\|PROBLEM' | head -1 | cut -c1-200)"; fi
    if echo "$out" | grep -q "PROBLEM.*unsupported"; then break; fi   # code outside the encodable fragment: a deeper tier cannot help
  done
  echo "$id ($prop): $res"
  python3 - "$id" "$res" <<'PY'
import sys,os
p='/verif/seeded/RESULTS.txt'
lines=[l for l in open(p)] if os.path.exists(p) else []
lines=[l for l in lines if not l.startswith(sys.argv[1]+' ')]
lines.append(f"{sys.argv[1]} {sys.argv[2]}\n")
open(p,'w').write(''.join(sorted(lines)))
PY
done
