#!/bin/bash
# Self-test: apply each seeded change under /verif/seeded/<id>/patch.diff to /repo, run the check of the property it
# breaks (quick, then thorough if quick misses it), record the outcome, and undo the change straight afterwards.
# Not part of any MANIFEST command. Usage: tools/seeded.sh [id ...]
cd /verif
export GOFLAGS=-mod=mod GOPROXY=off GOSUMDB=off GOTOOLCHAIN=local
ids="$@"
[ -z "$ids" ] && ids=$(ls seeded)
for id in $ids; do
  d=seeded/$id
  [ -f $d/patch.diff ] || continue
  prop=$(python3 -c "import json;print(json.load(open('$d/meta.json'))['property'])")
  if [ -n "$(git -C /repo status --porcelain)" ]; then echo "/repo not clean"; exit 2; fi
  git -C /repo apply /verif/$d/patch.diff || { echo "$id: patch does not apply"; continue; }
  res=missed
  for tier in quick thorough; do
    out=$(timeout 3600 ./bin/gosym check --out /tmp/seeded-scratch --property $prop --tier $tier 2>&1)
    rc=$?
    if [ $rc -eq 1 ]; then res="caught-$tier: $(echo "$out" | grep 'violated:' | head -1 | sed 's/cfg=.*//')"; break; fi
    if [ $rc -eq 2 ]; then res="inconclusive-$tier: $(echo "$out" | grep 'UNCONFIRMED\|PROBLEM' | head -1 | cut -c1-200)"; fi
  done
  git -C /repo checkout -- .
  echo "$id ($prop): $res"
done
rm -rf /tmp/seeded-scratch
