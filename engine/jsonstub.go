package main

func (e *Engine) jsonMarshal(v Value) Value {
	unsupported("json.Marshal stub not built yet")
	return nil
}
func (e *Engine) jsonUnmarshal(data, target Value) Value {
	unsupported("json.Unmarshal stub not built yet")
	return nil
}
func (e *Engine) bytesIndex(data, sep Value) Value {
	unsupported("bytes.Index stub not built yet")
	return nil
}
