package main

import (
	"go/token"
	"go/types"
	"strings"

	"golang.org/x/tools/go/ssa"
)

const tokGEQ, tokLEQ = token.GEQ, token.LEQ

// The abstract codec that stands in for encoding/json (DESIGN.md section 2.7 and Appendix B).
//
// A []byte produced by json.Marshal or by the harness intrinsic JSONDoc is a Rope with one opaque piece that
// carries an abstract document (JDoc). Hand-written writers (LinkedHashMap.ToJSON) concatenate such pieces with
// concrete punctuation; the rope is parsed token by token when it is consumed.

const (
	jcSyntax = iota // not JSON at all
	jcEmpty         // empty input
	jcNull
	jcScalar // a number where an array/object is expected
	jcArray
	jcObject
)

func docRope(d *JDoc) *Rope { return &Rope{P: []Piece{{Opq: true, What: "json", Doc: d}}} }

func jsonErr(msg string) Value {
	// a non-nil error value: an interface holding an opaque pointer
	return &Iface{T: types.Universe.Lookup("error").Type(), V: "json: " + msg}
}

func (e *Engine) jsonMarshal(v Value) Value {
	d, ok := e.toDoc(v)
	if !ok {
		return Tuple{Nil{}, jsonErr("unsupported value")}
	}
	return Tuple{docRope(d), Nil{}}
}

func isStringType(t types.Type) bool {
	if t == nil {
		return false
	}
	b, ok := t.Underlying().(*types.Basic)
	return ok && b.Info()&types.IsString != 0
}

func strTok(x Value) Value {
	if d, ok := x.(*JDoc); ok {
		return d
	}
	return &JDoc{Kind: "scalar", Elems: []Value{x}, Str: true}
}

func (e *Engine) toDoc(v Value) (*JDoc, bool) { return e.toDocT(v, nil) }

func (e *Engine) toDocT(v Value, st types.Type) (*JDoc, bool) {
	v = e.fv(v)
	if i, ok := v.(*Iface); ok {
		st = i.T
		// a type with its own MarshalJSON is asked to marshal itself; the result must be one JSON value
		var m *ssa.Function
		if sel := e.prog.MethodSets.MethodSet(i.T).Lookup(nil, "MarshalJSON"); sel != nil {
			m = e.prog.MethodValue(sel)
		}
		if m != nil && m.Blocks != nil {
			res := e.call(m, []Value{i.V}).(Tuple)
			if _, isNil := res[1].(Nil); !isNil {
				return nil, false
			}
			d := e.parseRope(ropeOf(res[0]))
			if d == nil {
				return nil, false
			}
			return d, true
		}
		v = e.fv(i.V)
	}
	var elemT, keyT types.Type
	if st != nil {
		switch u := st.Underlying().(type) {
		case *types.Pointer:
			elemT = u.Elem()
		case *types.Slice:
			elemT = u.Elem()
		case *types.Map:
			elemT, keyT = u.Elem(), u.Key()
		}
	}
	switch x := v.(type) {
	case *Ptr:
		return e.toDocT(e.load(x), elemT)
	case Nil:
		return &JDoc{Kind: "null"}, true
	case *SliceV:
		d := &JDoc{Kind: "array"}
		for _, c := range sliceVals(x) {
			c = e.fv(c)
			if isStringType(elemT) {
				c = strTok(c)
			}
			d.Elems = append(d.Elems, c)
		}
		return d, true
	case *MapV:
		d := &JDoc{Kind: "object", StrKeys: isStringType(keyT)}
		for i := range x.M.Keys {
			d.Keys = append(d.Keys, x.M.Keys[i])
			el := x.M.Vals[i]
			if isStringType(elemT) {
				el = strTok(el)
			}
			d.Elems = append(d.Elems, el)
		}
		return d, true
	case int64, *Term, bool:
		if isStringType(st) {
			return &JDoc{Kind: "scalar", Elems: []Value{x}, Str: true}, true
		}
		return &JDoc{Kind: "scalar", Elems: []Value{x}}, true
	case string:
		return &JDoc{Kind: "scalar", Elems: []Value{x}, Str: true}, true
	case *StructV:
		if len(x.F) == 0 {
			return &JDoc{Kind: "object"}, true
		}
	}
	unsupported("json.Marshal of %T", v)
	return nil, false
}

// parseRope turns a rope into one abstract document, or nil if it is not a single valid JSON value.
func (e *Engine) parseRope(r *Rope) *JDoc {
	type tok struct {
		c   byte
		doc *JDoc
	}
	var toks []tok
	for _, p := range r.P {
		if p.Opq {
			if p.What != "json" || p.Doc == nil {
				unsupported("parsing a rope with a non-JSON opaque piece")
			}
			toks = append(toks, tok{doc: p.Doc})
			continue
		}
		for i := 0; i < len(p.S); i++ {
			c := p.S[i]
			switch c {
			case ' ', '\n', '\t', '\r':
			case '{', '}', '[', ']', ',', ':':
				toks = append(toks, tok{c: c})
			default:
				if strings.HasPrefix(p.S[i:], "null") {
					toks = append(toks, tok{doc: &JDoc{Kind: "null"}})
					i += 3
					continue
				}
				unsupported("JSON rope with literal text %q", p.S)
			}
		}
	}
	pos := 0
	var value func() *JDoc
	value = func() *JDoc {
		if pos >= len(toks) {
			return nil
		}
		t := toks[pos]
		if t.doc != nil {
			pos++
			if t.doc.Kind == "invalid" {
				return nil
			}
			return t.doc
		}
		switch t.c {
		case '[':
			pos++
			d := &JDoc{Kind: "array"}
			if pos < len(toks) && toks[pos].c == ']' {
				pos++
				return d
			}
			for {
				el := value()
				if el == nil {
					return nil
				}
				d.Elems = append(d.Elems, docValue(el))
				if pos >= len(toks) {
					return nil
				}
				if toks[pos].c == ',' {
					pos++
					continue
				}
				if toks[pos].c == ']' {
					pos++
					return d
				}
				return nil
			}
		case '{':
			pos++
			d := &JDoc{Kind: "object"}
			if pos < len(toks) && toks[pos].c == '}' {
				pos++
				return d
			}
			for {
				k := value()
				// object keys must be JSON strings
				if k == nil || k.Kind != "scalar" || !k.Str {
					return nil
				}
				if pos >= len(toks) || toks[pos].c != ':' {
					return nil
				}
				pos++
				el := value()
				if el == nil {
					return nil
				}
				d.Keys = append(d.Keys, k.Elems[0])
				d.StrKeys = true
				d.Elems = append(d.Elems, docValue(el))
				if pos >= len(toks) {
					return nil
				}
				if toks[pos].c == ',' {
					pos++
					continue
				}
				if toks[pos].c == '}' {
					pos++
					return d
				}
				return nil
			}
		}
		return nil
	}
	d := value()
	if d == nil || pos != len(toks) {
		return nil
	}
	return d
}

// docValue: nested documents stay documents, scalars become their value.
func docValue(d *JDoc) Value {
	if d.Kind == "scalar" && !d.Str {
		return d.Elems[0]
	}
	return d
}

// jsonDocIntrinsic builds the input documents of the FromJSON harnesses (class per Appendix B).
func (e *Engine) jsonDocIntrinsic(a []Value, strs bool) Value {
	class := a[0].(int64)
	keys, vals := sliceVals(a[1]), sliceVals(a[2])
	bad := a[3].(int64)
	switch class {
	case jcSyntax, jcEmpty:
		return docRope(&JDoc{Kind: "invalid"})
	case jcNull:
		return docRope(&JDoc{Kind: "null"})
	case jcScalar:
		return docRope(&JDoc{Kind: "scalar", Elems: []Value{int64(7)}})
	case jcArray, jcObject:
		d := &JDoc{Kind: "array"}
		if class == jcObject {
			d = &JDoc{Kind: "object", StrKeys: strs}
		}
		for i, x := range vals {
			x = e.fv(x)
			if class == jcObject {
				d.Keys = append(d.Keys, e.fv(keys[i]))
			}
			switch {
			case int64(i) == bad && strs:
				d.Elems = append(d.Elems, int64(7)) // a number where a string is expected
			case int64(i) == bad:
				d.Elems = append(d.Elems, &JDoc{Kind: "scalar", Elems: []Value{"x"}, Str: true})
			case strs:
				d.Elems = append(d.Elems, strTok(x))
			default:
				d.Elems = append(d.Elems, x)
			}
		}
		return docRope(d)
	}
	unsupported("JSONDoc class %d", class)
	return nil
}

func (e *Engine) jsonKind(data Value) Value {
	d := e.parseRope(ropeOf(data))
	if d == nil {
		return int64(jcSyntax)
	}
	switch d.Kind {
	case "null":
		return int64(jcNull)
	case "scalar":
		return int64(jcScalar)
	case "array":
		return int64(jcArray)
	case "object":
		return int64(jcObject)
	}
	return int64(jcSyntax)
}

// elemFor: the Go value a JSON element decodes to for a target of type t (int or string), or false on a type mismatch.
func elemFor(el Value, t types.Type) (Value, bool) {
	if isStringType(t) {
		if d, ok := el.(*JDoc); ok && d.Kind == "scalar" && d.Str {
			return d.Elems[0], true
		}
		return nil, false
	}
	if isNumber(el) {
		return el, true
	}
	return nil, false
}

func sameScalar(a, b Value) bool {
	if !isScalar(a) || !isScalar(b) {
		return false
	}
	return lit(a) == lit(b)
}

func isNumber(v Value) bool {
	switch v.(type) {
	case int64, *Term:
		return true
	}
	return false
}

// jsonUnmarshal implements the documented contract of json.Unmarshal for *[]int and *map[int]int targets.
func (e *Engine) jsonUnmarshal(data, target Value) Value {
	tp, ok := e.fv(target).(*Ptr)
	if !ok {
		if i, isI := target.(*Iface); isI {
			tp, ok = e.fv(i.V).(*Ptr)
		}
	}
	if !ok {
		unsupported("json.Unmarshal into %T", target)
	}
	var tt types.Type
	if i, isI := target.(*Iface); isI {
		// a target with its own UnmarshalJSON decodes itself (json.Unmarshal(data, container))
		if sel := e.prog.MethodSets.MethodSet(i.T).Lookup(nil, "UnmarshalJSON"); sel != nil {
			if m := e.prog.MethodValue(sel); m != nil && m.Blocks != nil {
				if e.parseRope(ropeOf(data)) == nil {
					return jsonErr("syntax error") // the decoder validates the input before calling UnmarshalJSON
				}
				return e.call(m, []Value{i.V, data})
			}
		}
		tt = i.T.Underlying().(*types.Pointer).Elem()
	}
	if tt == nil {
		unsupported("json.Unmarshal: unknown target type")
	}
	d := e.parseRope(ropeOf(data))
	if d == nil {
		return jsonErr("syntax error")
	}
	switch t := tt.Underlying().(type) {
	case *types.Slice:
		switch d.Kind {
		case "null":
			e.store(tp, Nil{})
			return Nil{}
		case "array":
		default:
			return jsonErr("cannot unmarshal " + d.Kind + " into slice")
		}
		old := e.load(tp)
		n := int64(len(d.Elems))
		var arr *Object
		var off, ocap int64
		if s, isS := old.(*SliceV); isS {
			arr, off, ocap = s.Arr, s.Off, s.Cap
		}
		var cells []Value
		reused := false
		if arr != nil && n <= ocap {
			reused = true
			cells = arr.Val.(*StructV).F[off : off+ocap]
		} else {
			// growth: elements decoded so far are carried over (reflect.Append semantics); new cells are zero
			spare := e.spec.Cfg["appendspare"]
			nc := make([]Value, n+spare)
			for i := range nc {
				nc[i] = zero(t.Elem())
			}
			if arr != nil {
				copy(nc, arr.Val.(*StructV).F[off:off+ocap])
			}
			arr, off, ocap = e.newObj(&StructV{F: nc}), 0, n+spare
			cells = nc
		}
		var err Value = Nil{}
		for i, el := range d.Elems {
			if x, ok := elemFor(el, t.Elem()); ok {
				if reused {
					e.noteStore(arr, cells[i], x) // decoded in place into the live backing array
				}
				cells[i] = x
			} else if _, isNil := err.(Nil); isNil {
				err = jsonErr("cannot unmarshal element of the wrong JSON type") // the cell keeps what it held
			}
		}
		if arr == nil {
			arr = e.newObj(&StructV{F: nil})
		}
		e.store(tp, &SliceV{Arr: arr, Off: off, Len: n, Cap: ocap})
		return err
	case *types.Map:
		switch d.Kind {
		case "null":
			e.store(tp, Nil{})
			return Nil{}
		case "object":
		default:
			return jsonErr("cannot unmarshal " + d.Kind + " into map")
		}
		old := e.load(tp)
		mv, isM := old.(*MapV)
		if !isM {
			e.nobj++
			mv = &MapV{&MapObj{ID: e.nobj, Lazy: e.forcing > 0}}
			e.store(tp, mv)
		}
		var err Value = Nil{}
		for i, k := range d.Keys {
			el := d.Elems[i]
			if !isNumber(k) {
				unsupported("json object key that is not an atom")
			}
			if isStringType(t.Key()) != d.StrKeys && len(d.Keys) > 0 {
				unsupported("json object with integer-text keys loaded into a string-keyed map or vice versa")
			}
			_, wantStruct := t.Elem().Underlying().(*types.Struct)
			if !wantStruct {
				x, ok := elemFor(el, t.Elem())
				if !ok {
					if _, isNil := err.(Nil); isNil {
						err = jsonErr("cannot unmarshal map value of the wrong JSON type")
					}
					continue
				}
				el = x
			}
			if j := e.mapSlot(mv.M, k); j >= 0 {
				e.noteMapStore(mv.M, mv.M.Vals[j], el)
				mv.M.Vals[j] = el
			} else {
				e.checkWriteMap(mv.M)
				mv.M.Keys = append(mv.M.Keys, k)
				mv.M.Vals = append(mv.M.Vals, el)
			}
		}
		return err
	}
	unsupported("json.Unmarshal into %v", tt)
	return nil
}

// bytesIndex models bytes.Index(data, needle) for LinkedHashMap.FromJSON: the needle is the marshalled key, data the
// document. Exact under the harness's assumption that every key and value of the document is a single-digit
// non-negative integer: then the document's digit characters are exactly its key and value tokens in order, and
// the first occurrence of the key's digit is the first token equal to it (a VALUE equal to a later key wins).
func (e *Engine) bytesIndex(data, sep Value) Value {
	d := e.parseRope(ropeOf(data))
	n := e.parseRope(ropeOf(sep))
	if d == nil || n == nil || d.Kind != "object" || n.Kind != "scalar" {
		unsupported("bytes.Index outside the modelled use (document object, scalar needle)")
	}
	x := n.Elems[0]
	if n.Str {
		// a quoted needle can only match a whole string token (keys of a string-keyed object, string values); atoms
		// of equal width cannot contain one another. First matching token in document order wins.
		var res Value = int64(-1)
		type tk struct {
			v   Value
			pos int64
		}
		var toks []tk
		for i := range d.Keys {
			if d.StrKeys {
				toks = append(toks, tk{d.Keys[i], int64(2*i + 1)})
			}
			if sd, ok := d.Elems[i].(*JDoc); ok && sd.Kind == "scalar" && sd.Str {
				toks = append(toks, tk{sd.Elems[0], int64(2*i + 2)})
			}
		}
		for j := len(toks) - 1; j >= 0; j-- {
			res = e.ite(e.eqVals(toks[j].v, x), toks[j].pos, res)
		}
		return res
	}
	var toks []Value
	for i := range d.Keys {
		toks = append(toks, d.Keys[i], d.Elems[i])
	}
	for _, t := range append(append([]Value{}, toks...), x) {
		if !isNumber(t) {
			unsupported("bytes.Index over a document with non-numeric tokens")
		}
		in := e.boolAnd(e.binop(tokGEQ, t, int64(0), nil), e.binop(tokLEQ, t, int64(9), nil))
		if c, ok := in.(bool); ok && c {
			continue
		}
		if c, ok := in.(bool); (ok && !c) || e.solver.check("(not "+lit(in)+")") {
			unsupported("bytes.Index: tokens outside the single-digit domain the stub models exactly (the harness must assume 0..9)")
		}
	}
	var res Value = int64(-1)
	for j := len(toks) - 1; j >= 0; j-- {
		res = e.ite(e.eqVals(toks[j], x), int64(2*j+1), res)
	}
	return res
}
