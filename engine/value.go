package main

import (
	"fmt"
	"go/types"
	"math"
	"strconv"
	"strings"

	"golang.org/x/tools/go/ssa"
)

// Value is a runtime value of the symbolic interpreter.
//
//	int64, bool, float64, string   concrete scalars (all integer types are int64, normalised to their width)
//	*Term                          symbolic Int / Bool
//	*Ptr, *StructV, *SliceV, *MapV, *Closure, *ssa.Function, *Iface, Tuple, Nil, *Thunk, *Bytes, *Rope
type Value interface{}

type Term struct {
	Sort   string // "Int" | "Bool"
	S      string
	HasB   bool // interval known
	Lo, Hi int64
}

type Object struct {
	ID   int
	Val  Value
	Lazy bool // materialised by a pre-state generator: counts as existing before the operation
}

type Ptr struct {
	Obj  *Object
	Path []int
	Sym  *Term // symbolic index into the cells [Base, Base+N) of Obj (Path addresses the array)
	Base int
	N    int
}

type StructV struct{ F []Value }

type Closure struct {
	Fn  *ssa.Function
	Env []Value
}

type Thunk struct {
	Gen    Value
	Sum    Value
	Forced bool
	Val    Value
	Scope  string
}

type SliceV struct {
	Arr           *Object
	Off, Len, Cap int64
}

type MapObj struct {
	ID         int
	Lazy       bool
	Keys, Vals []Value
}
type MapV struct{ M *MapObj }
type MapIter struct {
	Keys, Vals []Value
	Idx        int
}

// Iface is a non-nil interface value.
type Iface struct {
	T types.Type
	V Value
}
type Tuple []Value
type Nil struct{}

// Rope is a string or []byte whose content is partly opaque: a sequence of pieces.
type Rope struct{ P []Piece }

// Piece is a concrete string (S) or an opaque item.
type Piece struct {
	S    string
	Opq  bool
	What string // "fmt", "json", ...
	Doc  *JDoc  // for json pieces
	Args []Value
}

// JDoc is an abstract JSON document.
type JDoc struct {
	Kind  string  // "array" | "object" | "scalar" | "null" | "input"
	Elems []Value // array elements / object values / [scalar]
	Keys  []Value // object keys
	Input *JInput // symbolic input document (FromJSON of arbitrary bytes)
	Str   bool    // scalar is a string token
	StrKeys bool
}

// JInput is an arbitrary byte string handed to FromJSON; its class is decided lazily, once.
type JInput struct {
	Tag     string
	Decided bool
	Class   string // "syntax" | "null" | "array" | "object" | "scalar"
	Elems   []Value
	Keys    []Value
	BadAt   int // index of a wrongly typed element, or -1
}

type Infeasible struct{}

// PanicEvt is a Go run-time panic (or explicit panic) in the code under test.
type PanicEvt struct {
	Msg  string
	Site string
}

// Unsupported aborts the whole run as inconclusive.
type Unsupported struct{ Msg string }

func unsupported(f string, a ...interface{}) { panic(Unsupported{fmt.Sprintf(f, a...)}) }

func lit(v Value) string {
	switch x := v.(type) {
	case int64:
		if x < 0 {
			if x == math.MinInt64 {
				return "(- 9223372036854775808)"
			}
			return "(- " + strconv.FormatInt(-x, 10) + ")"
		}
		return strconv.FormatInt(x, 10)
	case bool:
		if x {
			return "true"
		}
		return "false"
	case *Term:
		return x.S
	}
	panic(Unsupported{fmt.Sprintf("lit of %T", v)})
}

func sortOf(v Value) string {
	switch x := v.(type) {
	case bool:
		return "Bool"
	case *Term:
		return x.Sort
	}
	return "Int"
}

func isScalar(v Value) bool {
	switch v.(type) {
	case int64, bool, *Term:
		return true
	}
	return false
}

func zero(t types.Type) Value {
	switch u := t.Underlying().(type) {
	case *types.Basic:
		switch {
		case u.Info()&types.IsBoolean != 0:
			return false
		case u.Info()&types.IsInteger != 0:
			return int64(0)
		case u.Info()&types.IsFloat != 0:
			return float64(0)
		case u.Info()&types.IsString != 0:
			return ""
		case u.Kind() == types.UnsafePointer:
			return Nil{}
		}
	case *types.Pointer, *types.Signature, *types.Slice, *types.Map, *types.Interface, *types.Chan:
		return Nil{}
	case *types.Array:
		s := &StructV{F: make([]Value, u.Len())}
		for i := range s.F {
			s.F[i] = zero(u.Elem())
		}
		return s
	case *types.Struct:
		s := &StructV{F: make([]Value, u.NumFields())}
		for i := range s.F {
			s.F[i] = zero(u.Field(i).Type())
		}
		return s
	case *types.Tuple:
		t := make(Tuple, u.Len())
		for i := range t {
			t[i] = zero(u.At(i).Type())
		}
		return t
	}
	panic(Unsupported{"zero of " + t.String()})
}

func copyVal(v Value) Value {
	if s, ok := v.(*StructV); ok {
		n := &StructV{F: make([]Value, len(s.F))}
		for i, f := range s.F {
			n.F[i] = copyVal(f)
		}
		return n
	}
	return v
}

func pathEq(a, b []int) bool {
	if len(a) != len(b) {
		return false
	}
	for i := range a {
		if a[i] != b[i] {
			return false
		}
	}
	return true
}

func showVal(v Value) string {
	switch x := v.(type) {
	case *Term:
		return x.S
	case *Ptr:
		return fmt.Sprintf("&obj%d%v", x.Obj.ID, x.Path)
	case *StructV:
		var p []string
		for _, f := range x.F {
			p = append(p, showVal(f))
		}
		return "{" + strings.Join(p, ",") + "}"
	case *SliceV:
		return fmt.Sprintf("slice(obj%d,%d,%d,%d)", x.Arr.ID, x.Off, x.Len, x.Cap)
	case Nil:
		return "nil"
	case *Thunk:
		return "thunk(" + x.Scope + ")"
	}
	return fmt.Sprintf("%v", v)
}
