// gosym: bounded symbolic model checking of emirpasic/gods from its go/ssa form (see /verif/DESIGN.md).
package main

import (
	"go/types"
	"bufio"
	"crypto/sha1"
	"encoding/json"
	"flag"
	"fmt"
	"os"
	"path/filepath"
	"sort"
	"strconv"
	"strings"
	"time"

	"golang.org/x/tools/go/packages"
	"golang.org/x/tools/go/ssa"
	"golang.org/x/tools/go/ssa/ssautil"
)

const modPath = "github.com/emirpasic/gods/v2"

type Loaded struct {
	prog  *ssa.Program
	pkgs  map[string]*ssa.Package // by directory relative to repo
	names map[string]string       // package name by directory
	loadS float64
}

func load(repo, verif string, dirs []string) (*Loaded, error) {
	t0 := time.Now()
	files, err := harnessFiles(repo, verif, false)
	if err != nil {
		return nil, err
	}
	overlay := map[string][]byte{}
	for v, r := range files {
		b, err := os.ReadFile(r)
		if err != nil {
			return nil, err
		}
		overlay[v] = b
	}
	cfg := &packages.Config{Mode: packages.LoadAllSyntax, Dir: repo, Overlay: overlay, Env: goEnv()}
	var pats []string
	for _, d := range dirs {
		pats = append(pats, "./"+d)
	}
	pkgs, err := packages.Load(cfg, pats...)
	if err != nil {
		return nil, err
	}
	nerr := 0
	packages.Visit(pkgs, nil, func(p *packages.Package) {
		for _, e := range p.Errors {
			fmt.Fprintln(os.Stderr, "load error:", e)
			nerr++
		}
	})
	if nerr > 0 {
		return nil, fmt.Errorf("%d errors loading packages (does /repo build with the harness overlay?)", nerr)
	}
	prog, spkgs := ssautil.AllPackages(pkgs, ssa.InstantiateGenerics)
	prog.Build()
	l := &Loaded{prog: prog, pkgs: map[string]*ssa.Package{}, names: map[string]string{}}
	for i, p := range pkgs {
		rel := strings.TrimPrefix(strings.TrimPrefix(p.PkgPath, modPath), "/")
		l.pkgs[rel] = spkgs[i]
		l.names[rel] = p.Name
	}
	l.loadS = time.Since(t0).Seconds()
	return l, nil
}

func parseProps(path string) ([]*RunSpec, error) {
	f, err := os.Open(path)
	if err != nil {
		return nil, err
	}
	defer f.Close()
	var specs []*RunSpec
	sc := bufio.NewScanner(f)
	sc.Buffer(make([]byte, 1<<20), 1<<20)
	ln := 0
	for sc.Scan() {
		ln++
		line := strings.TrimSpace(sc.Text())
		if line == "" || line[0] == '#' {
			continue
		}
		fs := strings.Fields(line)
		if len(fs) < 4 {
			return nil, fmt.Errorf("%s:%d: need props tier pkg harness", path, ln)
		}
		s := &RunSpec{Props: strings.Split(fs[0], ","), Tier: fs[1], Pkg: fs[2], Harness: fs[3], Cfg: map[string]int64{}}
		for _, kv := range fs[4:] {
			p := strings.SplitN(kv, "=", 2)
			if len(p) != 2 {
				return nil, fmt.Errorf("%s:%d: bad field %q", path, ln, kv)
			}
			switch p[0] {
			case "need":
				s.Need = strings.Split(p[1], ",")
			case "cover":
				s.Cover = strings.Split(p[1], ",")
			case "maxpaths":
				s.MaxPaths, _ = strconv.Atoi(p[1])
			case "maxsecs":
				s.MaxSecs, _ = strconv.Atoi(p[1])
			default:
				n, err := strconv.ParseInt(p[1], 10, 64)
				if err != nil {
					return nil, fmt.Errorf("%s:%d: bad value %q", path, ln, kv)
				}
				s.Cfg[p[0]] = n
			}
		}
		specs = append(specs, s)
	}
	return specs, sc.Err()
}

func harnessNames(p *ssa.Package) []string {
	var hs []string
	for n, m := range p.Members {
		if fn, ok := m.(*ssa.Function); ok && strings.HasPrefix(n, "VH") && len(fn.Params) == 0 && fn.Signature.Results().Len() == 0 {
			hs = append(hs, n)
		}
	}
	sort.Strings(hs)
	return hs
}

type options struct {
	repo, verif string
	out         string // where evidence and replay files go (default: verif)
	workers     int
	seed        int64
	native      bool
	nsamples    int
	cross       string // second solver for the cross-check ("" = none)
	crossMax    int
}

// Summary is what one property check produced.
type Summary struct {
	CrossChecked int
	Runs        []*RunResult
	Violations  []Failure
	Known       []Failure
	Unconfirmed []Failure
	Problems    []string
	Notes       []string
}

func (o *options) outDir() string {
	if o.out != "" {
		return o.out
	}
	return o.verif
}

func writeReplay(verif string, c ReplayCase) string {
	b, _ := json.MarshalIndent([]ReplayCase{c}, "", " ")
	h := sha1.Sum(b)
	dir := filepath.Join(verif, "replays", c.Property)
	os.MkdirAll(dir, 0755)
	p := filepath.Join(dir, fmt.Sprintf("%s-%x.json", c.Harness, h[:5]))
	os.WriteFile(p, b, 0644)
	return p
}

func sig(f *Failure) string { return f.Pkg + "." + f.Harn + "|" + f.Kind + "|" + f.Label + "|" + f.Site }

func runChecks(l *Loaded, specs []*RunSpec, known []KnownFinding, opt options) *Summary {
	sum := &Summary{}
	type pend struct {
		f   *Failure
		run *RunResult
	}
	for _, spec := range specs {
		p := l.pkgs[spec.Pkg]
		if p == nil || p.Func(spec.Harness) == nil {
			sum.Problems = append(sum.Problems, "no harness "+spec.Pkg+"."+spec.Harness)
			continue
		}
		spec.fn = p.Func(spec.Harness)
		res := explore(l.prog, spec, opt.workers, known, opt.seed, opt.nsamples, os.Getenv("GOSYM_SOLVER"))
		sum.Runs = append(sum.Runs, res)
		fmt.Printf("  %-70s paths=%d branches=%d queries=%d solver=%.1fs wall=%.1fs fails=%d\n", spec.String(), res.Paths, res.Branches, res.Queries, res.SolverS, res.WallS, len(res.Fails))
		if os.Getenv("GOSYM_VERBOSE") != "" {
			fmt.Printf("    assertion queries=%d new symbolic branches=%d (2 queries each)\n", res.AssertQ, res.NewBranches)
		}
		if res.Err != "" {
			sum.Problems = append(sum.Problems, spec.String()+": "+res.Err)
			continue
		}
		if res.Incomplete != "" {
			sum.Problems = append(sum.Problems, spec.String()+": incomplete: "+res.Incomplete)
		}
		// second solver on the same encoding (thorough tier): same feasible paths, same failing obligations
		if opt.cross != "" && res.Incomplete == "" && res.Paths <= opt.crossMax {
			r2 := explore(l.prog, spec, opt.workers, known, opt.seed, 0, opt.cross)
			res.CrossSolver, res.CrossPaths, res.CrossS = opt.cross, r2.Paths, r2.WallS
			if r2.Err != "" {
				sum.Problems = append(sum.Problems, spec.String()+": "+opt.cross+": "+r2.Err)
			} else if r2.Paths != res.Paths || len(r2.Fails) != len(res.Fails) {
				sum.Problems = append(sum.Problems, fmt.Sprintf("%s: solvers disagree: z3 %d paths/%d failing, %s %d paths/%d failing", spec.String(), res.Paths, len(res.Fails), opt.cross, r2.Paths, len(r2.Fails)))
			} else {
				sum.CrossChecked++
			}
		}
		if res.Paths == 0 {
			sum.Problems = append(sum.Problems, spec.String()+": vacuous: no feasible path")
		}
		for _, c := range spec.Cover {
			if !res.Covers[c] {
				sum.Problems = append(sum.Problems, spec.String()+": vacuous: cover point "+c+" not reached")
			}
		}
		for _, n := range spec.Need {
			hit := false
			for f := range res.Funcs {
				if strings.HasSuffix(f, "."+n) || strings.HasSuffix(f, ")."+n) || strings.Contains(f, "."+n+"[") {
					hit = true
					break
				}
			}
			if !hit && !declaredInRepo(l, n) {
				// the named helper no longer exists in the source (refactored away): the guard has nothing to demand
				sum.Notes = append(sum.Notes, spec.String()+": reachability guard skipped, no function "+n+" in the source")
				continue
			}
			if !hit && len(res.Fails) == 0 {
				sum.Problems = append(sum.Problems, spec.String()+": vacuous: library function "+n+" never executed")
			}
		}
		// known findings; group the rest by signature and confirm natively
		bySig := map[string][]*Failure{}
		var order []string
		for i := range res.Fails {
			f := &res.Fails[i]
			if f.Known != "" {
				sum.Known = append(sum.Known, *f)
				continue
			}
			s := sig(f)
			if _, ok := bySig[s]; !ok {
				order = append(order, s)
			}
			bySig[s] = append(bySig[s], f)
		}
		var cases []ReplayCase
		var cf []*Failure
		for _, s := range order {
			fs := bySig[s]
			// smallest models first: fewest nondet values
			sort.SliceStable(fs, func(i, j int) bool { return len(fs[i].Model) < len(fs[j].Model) })
			for i := 0; i < len(fs) && i < 4; i++ {
				cases = append(cases, caseOf(fs[i]))
				cf = append(cf, fs[i])
			}
		}
		if len(cases) > 0 {
			if !opt.native {
				for _, f := range cf {
					f.Native = "not replayed (--native=false)"
					sum.Unconfirmed = append(sum.Unconfirmed, *f)
				}
			} else {
				outs, log, err := runNative(opt.repo, opt.verif, spec.Pkg, l.names[spec.Pkg], harnessNames(p), cases, 120*time.Second)
				if err != nil && outs == nil {
					sum.Problems = append(sum.Problems, spec.String()+": native replay failed: "+err.Error()+"\n"+log)
				}
				confirmed := map[string]bool{}
				for i, f := range cf {
					if outs == nil {
						break
					}
					f.Native = outs[i].Outcome
					if outs[i].OutBytes > 0 {
						f.Native += fmt.Sprintf(" (+%d bytes of output)", outs[i].OutBytes)
					}
					if reproduced(cases[i].Expect, outs[i]) {
						if !confirmed[sig(f)] {
							confirmed[sig(f)] = true
							f.Replay = writeReplay(opt.outDir(), cases[i])
							sum.Violations = append(sum.Violations, *f)
						}
					}
				}
				for i, f := range cf {
					if !confirmed[sig(f)] {
						confirmed[sig(f)] = true // report each signature once
						if outs != nil && strings.HasPrefix(outs[i].Outcome, "NORESULT") {
							sum.Problems = append(sum.Problems, spec.String()+": native replay gave no result:\n"+tail(log, 30))
						}
						sum.Unconfirmed = append(sum.Unconfirmed, *f)
					}
				}
			}
		}
		// translator validation: sampled passing paths must pass natively with the same observations
		if opt.native && len(res.Samples) > 0 && res.Err == "" {
			var vc []ReplayCase
			for _, s := range res.Samples {
				vc = append(vc, ReplayCase{Property: spec.Property, Pkg: spec.Pkg, Harness: spec.Harness, Cfg: spec.Cfg, Nondet: s.Model, UF: s.UF, Observes: s.Observes})
			}
			outs, log, err := runNative(opt.repo, opt.verif, spec.Pkg, l.names[spec.Pkg], harnessNames(p), vc, 300*time.Second)
			if outs == nil {
				sum.Problems = append(sum.Problems, spec.String()+": native validation failed: "+fmt.Sprint(err)+"\n"+tail(log, 30))
			} else {
				for i, o := range outs {
					if o.Outcome == "OK" && strings.Join(o.Obs, " ") == strings.Join(vc[i].Observes, " ") {
						res.Validated++
					} else if res.ValidErr == "" {
						if o.Outcome == "NORESULT" {
							res.ValidErr = "native run gave no result:\n" + tail(log, 30) + "\n"
						}
						res.ValidErr += fmt.Sprintf("engine/native mismatch on a passing path: native=%q obs=%v engine obs=%v decisions=%s model=%v", o.Outcome, o.Obs, vc[i].Observes, res.Samples[i].Dec, vc[i].Nondet)
					}
				}
				if res.ValidErr != "" {
					sum.Problems = append(sum.Problems, spec.String()+": "+res.ValidErr)
				}
			}
		}
	}
	return sum
}

func tail(s string, n int) string {
	ls := strings.Split(strings.TrimRight(s, "\n"), "\n")
	if len(ls) > n {
		ls = ls[len(ls)-n:]
	}
	return strings.Join(ls, "\n")
}

func main() {
	if len(os.Args) < 2 {
		fmt.Fprintln(os.Stderr, "usage: gosym check|replay|run ...")
		os.Exit(2)
	}
	switch os.Args[1] {
	case "check":
		os.Exit(cmdCheck(os.Args[2:]))
	case "replay":
		os.Exit(cmdReplay(os.Args[2:]))
	case "run":
		os.Exit(cmdRun(os.Args[2:]))
	}
	fmt.Fprintln(os.Stderr, "unknown command", os.Args[1])
	os.Exit(2)
}

func commonFlags(fs *flag.FlagSet, opt *options) {
	fs.StringVar(&opt.repo, "repo", "/repo", "repository under test")
	fs.StringVar(&opt.verif, "verif", "/verif", "verification directory")
	fs.StringVar(&opt.out, "out", "", "directory for evidence/ and replays/ (default: the verification directory)")
	fs.IntVar(&opt.workers, "workers", 16, "parallel workers (one solver process each)")
	fs.BoolVar(&opt.native, "native", true, "replay counterexamples and sampled paths against the native build")
	fs.StringVar(&opt.cross, "cross", "", "re-explore small harnesses with a second solver (z3-new | cvc5) and require identical paths and failures")
	fs.IntVar(&opt.crossMax, "cross-max-paths", 3000, "largest harness (in paths) that is cross-checked")
	fs.IntVar(&opt.nsamples, "samples", 24, "passing paths per harness replayed natively (translator validation)")
}

func cmdRun(args []string) int {
	var opt options
	fs := flag.NewFlagSet("run", flag.ExitOnError)
	commonFlags(fs, &opt)
	prop := fs.String("property", "C00", "property id the labels are filtered for")
	fs.Parse(args)
	rest := fs.Args()
	if len(rest) < 2 {
		fmt.Fprintln(os.Stderr, "usage: gosym run [flags] <pkgdir> <Harness> [k=v ...]")
		return 2
	}
	spec := &RunSpec{Property: *prop, Pkg: rest[0], Harness: rest[1], Cfg: map[string]int64{}}
	for _, kv := range rest[2:] {
		p := strings.SplitN(kv, "=", 2)
		n, _ := strconv.ParseInt(p[1], 10, 64)
		switch p[0] {
		case "maxpaths":
			spec.MaxPaths = int(n)
		case "maxsecs":
			spec.MaxSecs = int(n)
		default:
			spec.Cfg[p[0]] = n
		}
	}
	known, err := loadKnown(filepath.Join(opt.verif, "known_findings.json"))
	if err != nil {
		fmt.Fprintln(os.Stderr, err)
		return 2
	}
	l, err := load(opt.repo, opt.verif, []string{spec.Pkg})
	if err != nil {
		fmt.Fprintln(os.Stderr, err)
		return 2
	}
	fmt.Printf("loaded in %.1fs\n", l.loadS)
	sum := runChecks(l, []*RunSpec{spec}, known, opt)
	return report(sum, *prop, "quick", opt, l, time.Now(), false)
}

func report(sum *Summary, prop, tier string, opt options, l *Loaded, t0 time.Time, writeEv bool) int {
	for _, r := range sum.Runs {
		if os.Getenv("GOSYM_VERBOSE") != "" {
			fmt.Printf("    funcs: %v\n", sortedKeys(r.Funcs))
		}
	}
	seenKnown := map[string]int{}
	var knownOrder []string
	for _, k := range sum.Known {
		line := fmt.Sprintf("KNOWN-FINDING: property=%s %s [%s %s %s]", k.Prop, k.Known, k.Pkg+"."+k.Harn, k.Kind, k.Label)
		if seenKnown[line] == 0 {
			knownOrder = append(knownOrder, line)
		}
		seenKnown[line]++
	}
	for _, line := range knownOrder {
		fmt.Printf("%s (on %d paths)\n", line, seenKnown[line])
	}
	for _, u := range sum.Unconfirmed {
		fmt.Printf("UNCONFIRMED property=%s %s %s %q at %s native=%q model=%v\n", u.Prop, u.Pkg+"."+u.Harn, u.Kind, u.Label, u.Site, u.Native, compactModel(u.Model))
	}
	for _, p := range sum.Problems {
		fmt.Printf("PROBLEM: %s\n", p)
	}
	for _, v := range sum.Violations {
		fmt.Printf("  violated: %s %s %q at %s cfg=%v native=%q\n", v.Pkg+"."+v.Harn, v.Kind, v.Label, v.Site, v.Cfg, v.Native)
		fmt.Printf("VIOLATION property=%s replay=%s\n", v.Prop, v.Replay)
	}
	code := 0
	switch {
	case len(sum.Violations) > 0:
		code = 1
	case len(sum.Problems) > 0 || len(sum.Unconfirmed) > 0:
		code = 2
	}
	if writeEv {
		if err := writeEvidence(sum, prop, tier, opt, l, time.Since(t0).Seconds(), code); err != nil {
			fmt.Println("PROBLEM: evidence:", err)
			if code == 0 {
				code = 2
			}
		}
	}
	switch code {
	case 0:
		fmt.Printf("PASS property=%s tier=%s (bounded: see evidence for bounds)\n", prop, tier)
	case 2:
		fmt.Printf("INCONCLUSIVE property=%s tier=%s\n", prop, tier)
	}
	return code
}

func compactModel(m map[string]string) string {
	var ks []string
	for k := range m {
		ks = append(ks, k)
	}
	sort.Strings(ks)
	var sb strings.Builder
	for i, k := range ks {
		if i > 40 {
			sb.WriteString(" ...")
			break
		}
		fmt.Fprintf(&sb, " %s=%s", k, m[k])
	}
	return sb.String()
}

func cmdCheck(args []string) int {
	var opt options
	fs := flag.NewFlagSet("check", flag.ExitOnError)
	commonFlags(fs, &opt)
	prop := fs.String("property", "", "property id (C01..C18)")
	tier := fs.String("tier", "", "quick | thorough (default: $VERIF_TIER or quick)")
	only := fs.String("only", "", "substring filter on harness names (development)")
	fs.Parse(args)
	if *tier == "" {
		*tier = os.Getenv("VERIF_TIER")
	}
	if *tier == "" {
		*tier = "quick"
	}
	if s := os.Getenv("VERIF_SEED"); s != "" {
		opt.seed, _ = strconv.ParseInt(s, 10, 64)
	}
	if *tier == "thorough" && opt.cross == "" && os.Getenv("GOSYM_NOCROSS") == "" {
		opt.cross = "z3-new"
	}
	t0 := time.Now()
	all, err := parseProps(filepath.Join(opt.verif, "harness", "props.txt"))
	if err != nil {
		fmt.Fprintln(os.Stderr, err)
		return 2
	}
	var specs []*RunSpec
	dirs := map[string]bool{}
	scope := propertyScope(filepath.Join(opt.verif, "properties.jsonl"), *prop)
	for _, s := range all {
		has := false
		for _, p := range s.Props {
			if p == *prop || (p == "*" && scope[s.Pkg]) {
				has = true
			}
		}
		want := (*tier == "quick" && strings.Contains(s.Tier, "q")) || (*tier == "thorough" && strings.Contains(s.Tier, "t"))
		if !has || !want || (*only != "" && !strings.Contains(s.Harness, *only)) {
			continue
		}
		c := *s
		c.Property = *prop
		specs = append(specs, &c)
		dirs[s.Pkg] = true
	}
	if len(specs) == 0 {
		fmt.Fprintf(os.Stderr, "no harness registered for %s at tier %s\n", *prop, *tier)
		return 2
	}
	known, err := loadKnown(filepath.Join(opt.verif, "known_findings.json"))
	if err != nil {
		fmt.Fprintln(os.Stderr, err)
		return 2
	}
	var dl []string
	for d := range dirs {
		dl = append(dl, d)
	}
	sort.Strings(dl)
	l, err := load(opt.repo, opt.verif, dl)
	if err != nil {
		fmt.Fprintln(os.Stderr, "PROBLEM:", err)
		writeEvidence(&Summary{Problems: []string{err.Error()}}, *prop, *tier, opt, nil, time.Since(t0).Seconds(), 2)
		return 2
	}
	fmt.Printf("gosym check property=%s tier=%s: %d harness runs, %d packages loaded from %s in %.1fs\n", *prop, *tier, len(specs), len(dl), opt.repo, l.loadS)
	sum := runChecks(l, specs, known, opt)
	return report(sum, *prop, *tier, opt, l, t0, true)
}

// uses: which packages a container package is built on (their invariants are part of its induction hypothesis).
var uses = map[string][]string{
	"stacks/arraystack": {"lists/arraylist"}, "queues/arrayqueue": {"lists/arraylist"}, "trees/binaryheap": {"lists/arraylist"},
	"queues/priorityqueue": {"trees/binaryheap", "lists/arraylist"}, "stacks/linkedliststack": {"lists/singlylinkedlist"},
	"queues/linkedlistqueue": {"lists/singlylinkedlist"}, "sets/linkedhashset": {"lists/doublylinkedlist"},
	"maps/linkedhashmap": {"lists/doublylinkedlist"}, "sets/treeset": {"trees/redblacktree"}, "maps/treemap": {"trees/redblacktree"},
	"maps/treebidimap": {"trees/redblacktree"}, "maps/hashbidimap": {"maps/hashmap"},
}

// propertyScope: the package directories a property is anchored in (properties.jsonl anchors.files), closed under uses.
// Registry lines marked "*" (mutator steps: they re-establish the representation invariant every other check starts
// from) are run for every property whose scope contains their package; only invariant labels and panics count there.
func propertyScope(path, prop string) map[string]bool {
	scope := map[string]bool{}
	b, err := os.ReadFile(path)
	if err != nil {
		return scope
	}
	for _, line := range strings.Split(string(b), "\n") {
		var p struct {
			ID      string `json:"id"`
			Anchors struct {
				Files []string `json:"files"`
			} `json:"anchors"`
		}
		if json.Unmarshal([]byte(line), &p) != nil || p.ID != prop {
			continue
		}
		for _, f := range p.Anchors.Files {
			d := filepath.Dir(f)
			scope[d] = true
			for _, u := range uses[d] {
				scope[u] = true
			}
		}
	}
	return scope
}

func cmdReplay(args []string) int {
	var opt options
	fs := flag.NewFlagSet("replay", flag.ExitOnError)
	commonFlags(fs, &opt)
	fs.Parse(args)
	if fs.NArg() != 1 {
		fmt.Fprintln(os.Stderr, "usage: gosym replay <file>")
		return 2
	}
	b, err := os.ReadFile(fs.Arg(0))
	if err != nil {
		fmt.Fprintln(os.Stderr, err)
		return 2
	}
	var cases []ReplayCase
	if err := json.Unmarshal(b, &cases); err != nil || len(cases) == 0 {
		fmt.Fprintln(os.Stderr, "bad replay file", err)
		return 2
	}
	c := cases[0]
	l, err := load(opt.repo, opt.verif, []string{c.Pkg})
	if err != nil {
		fmt.Fprintln(os.Stderr, err)
		return 2
	}
	outs, log, err := runNative(opt.repo, opt.verif, c.Pkg, l.names[c.Pkg], harnessNames(l.pkgs[c.Pkg]), cases, 120*time.Second)
	if outs == nil {
		fmt.Println(log)
		fmt.Fprintln(os.Stderr, err)
		return 2
	}
	rc := 0
	for i, o := range outs {
		fmt.Printf("case %d: %s.%s cfg=%v -> native outcome %q, %d bytes written to stdout/stderr\n", i, c.Pkg, cases[i].Harness, cases[i].Cfg, o.Outcome, o.OutBytes)
		if cases[i].Expect != nil {
			if reproduced(cases[i].Expect, o) {
				fmt.Printf("REPRODUCED %s %q at %s\n", cases[i].Expect.Kind, cases[i].Expect.Label, cases[i].Expect.Site)
				rc = 1
			} else {
				fmt.Printf("NOT-REPRODUCED (expected %s %q)\n", cases[i].Expect.Kind, cases[i].Expect.Label)
			}
		}
	}
	return rc
}

// declaredInRepo reports whether some library package declares a function or method with this name.
func declaredInRepo(l *Loaded, name string) bool {
	for _, p := range l.prog.AllPackages() {
		if !strings.HasPrefix(p.Pkg.Path(), "github.com/emirpasic/gods") {
			continue
		}
		sc := p.Pkg.Scope()
		for _, nm := range sc.Names() {
			switch o := sc.Lookup(nm).(type) {
			case *types.Func:
				if nm == name {
					return true
				}
			case *types.TypeName:
				if named, ok := o.Type().(*types.Named); ok {
					for i := 0; i < named.NumMethods(); i++ {
						if named.Method(i).Name() == name {
							return true
						}
					}
				}
			}
		}
	}
	return false
}
