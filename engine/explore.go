package main

import (
	"fmt"
	"os"
	"math/rand"
	"sort"
	"strings"
	"sync"
	"time"

	"golang.org/x/tools/go/ssa"
)

// RunSpec is one harness at one configuration, run for one property.
type RunSpec struct {
	Property string
	Props    []string
	Tier     string
	Pkg      string // directory relative to the repository root
	Harness  string
	Cfg      map[string]int64
	Need     []string // library functions that must be executed on some feasible path
	Cover    []string // Cover labels that must be hit
	MaxPaths int
	MaxSecs  int
	fn       *ssa.Function
}

func (r *RunSpec) String() string {
	var ks []string
	for k := range r.Cfg {
		ks = append(ks, k)
	}
	sort.Strings(ks)
	var sb strings.Builder
	sb.WriteString(r.Pkg + "." + r.Harness)
	for _, k := range ks {
		fmt.Fprintf(&sb, " %s=%d", k, r.Cfg[k])
	}
	return sb.String()
}

type pathSample struct {
	Dec      string            `json:"decisions"`
	Model    map[string]string `json:"model"`
	Observes []string          `json:"observes,omitempty"`
	UF       map[string][][3]string `json:"uf,omitempty"`
}

type pathResult struct {
	feasible bool
	fails    []Failure
	covers   map[string]bool
	ndec     int
	sample   *pathSample
	ticks    int
}

// RunResult aggregates one RunSpec.
type RunResult struct {
	Spec       *RunSpec
	Paths      int
	Infeasible int
	Branches   int
	Queries    int
	SolverS    float64
	WallS      float64
	Asserts    int
	AssertQ    int
	NewBranches int
	Fails      []Failure
	Covers     map[string]bool
	Funcs      map[string]bool
	Samples    []*pathSample
	Incomplete string
	Err        string
	MaxTicks   int
	Validated  int
	ValidErr   string
	CrossSolver string
	CrossPaths  int
	CrossS      float64
}

func (e *Engine) resetPath(dec []bool) {
	e.dec = append(e.dec[:0], dec...)
	e.pos = 0
	e.alts = nil
	e.nobj = 0
	e.scope = "r"
	e.scopeCnt = map[string]int{}
	e.declared = nil
	e.ndefs = 0
	e.ticks = map[string]int{}
	e.fails = nil
	e.covers = map[string]bool{}
	e.steps = 0
	e.depth = 0
	e.readonly = false
	e.watermark = 0
	e.forcing = 0
	e.thunks = nil
	e.observes = nil
	e.obsVals = nil
	e.ufApps = nil
	e.ufs = map[string]bool{}
	e.complete = false
	e.globals = map[*ssa.Global]*Object{}
	e.inited = map[*ssa.Package]bool{}
	e.curFn = e.curFn[:0]
	e.outputs = 0
	e.failSeq = 0
	e.pending = e.pending[:0]
	e.implied = map[string]bool{}
	e.tracking = false
	e.changed = false
	e.realSeq = 0
}

// completeThunks forces every thunk that is still unexpanded (choosing any feasible alternative)
// so that the model describes one fully concrete pre-state.
func (e *Engine) completeThunks() {
	e.complete = true
	e.readonly = false
	for i := 0; i < len(e.thunks); i++ {
		e.force(e.thunks[i])
	}
}

// protect runs f and returns how it ended: nil, Infeasible, PanicEvt or stopPath (anything else propagates).
func (e *Engine) protect(f func()) (out interface{}) {
	defer func() {
		if r := recover(); r != nil {
			switch r.(type) {
			case Infeasible, PanicEvt, stopPath, needRealise, realised:
				out = r
			default:
				panic(r)
			}
		}
	}()
	f()
	return nil
}

// runOnce executes the harness once along dec and reports how it ended.
func (e *Engine) runOnce(dec []bool, realSeq int) interface{} {
	e.resetPath(dec)
	e.realSeq = realSeq
	e.curFn = append(e.curFn, e.spec.fn)
	out := e.protect(func() { e.call(e.spec.fn, nil) })
	if out == nil {
		out = e.protect(func() { e.flush() })
	}
	if pe, ok := out.(PanicEvt); ok {
		out = e.protect(func() { e.flush(); e.failAt("panic", pe.Msg, pe.Site, "") })
		if out == nil {
			out = stopPath{} // known finding or dead path: the path ends at the panic either way
		}
	}
	return out
}

// realise re-runs a failing path and completes the pre-state, backtracking over completion choices.
func (e *Engine) realise(nr needRealise, dec []bool) Failure {
	f := nr.f
	stack := [][]bool{append([]bool{}, dec...)}
	for tries := 0; tries < 400 && len(stack) > 0; tries++ {
		d := stack[len(stack)-1]
		stack = stack[:len(stack)-1]
		e.solver.send("(push 1)")
		out := e.runOnce(d, nr.seq)
		if os.Getenv("GOSYM_DEBUG") != "" {
			fmt.Fprintf(os.Stderr, "  realise try %d: len(d)=%d -> %T\n", tries, len(d), out)
		}
		alts := e.alts
		uf := e.ufApps
		e.solver.send("(pop 1)")
		if r, ok := out.(realised); ok {
			f.Model = r.model
			e.ufApps = uf
			f.UF = e.ufTable(r.model)
			f.Dec = decString(d)
			return f
		}
		// only alternatives beyond the failure point matter: they all extend dec
		for _, a := range alts {
			if len(a) > len(dec) {
				stack = append(stack, a)
			}
		}
	}
	f.Native = "UNREALISABLE: no completion of the pre-state found"
	return f
}

func (e *Engine) runPath(dec []bool, wantSample bool) (res pathResult, alts [][]bool) {
	e.solver.send("(push 1)")
	out := e.runOnce(dec, 0)
	alts = e.alts
	res.covers = e.covers
	res.ndec = e.pos
	res.ticks = e.ticks["cmp"]
	res.fails = e.fails
	switch x := out.(type) {
	case Infeasible:
		e.solver.send("(pop 1)")
		// failures recorded earlier (known findings) were feasible when recorded: keep them
		res.feasible = len(res.fails) > 0
		return
	case stopPath:
		e.solver.send("(pop 1)")
		res.feasible = len(res.fails) > 0
		return
	case needRealise:
		pdec := append([]bool{}, e.dec[:e.pos]...)
		e.solver.send("(pop 1)")
		f := e.realise(x, pdec)
		res.fails = append(res.fails, f)
		res.feasible = true
		return
	}
	defer e.solver.send("(pop 1)")
	if !e.solver.check("") {
		res.fails = nil
		return
	}
	res.feasible = true
	if wantSample && len(e.fails) == 0 {
		nalts := len(e.alts)
		if e.protect(func() { e.completeThunks() }) == nil {
			if ok, m := e.model(""); ok {
				res.sample = &pathSample{Dec: decString(e.dec[:e.pos]), Model: m, UF: e.ufTable(m)}
				for _, o := range e.obsVals {
					res.sample.Observes = append(res.sample.Observes, o.tag+"="+m[o.n])
				}
			}
		}
		e.alts = e.alts[:nalts]
	}
	return
}

// explore runs every feasible path of a harness on nw workers.
func explore(prog *ssa.Program, spec *RunSpec, nw int, known []KnownFinding, seed int64, nsamples int, solverKind string) *RunResult {
	res := &RunResult{Spec: spec, Covers: map[string]bool{}, Funcs: map[string]bool{}}
	t0 := time.Now()
	var mu sync.Mutex
	cond := sync.NewCond(&mu)
	work := [][]bool{{}}
	busy := 0
	stop := false
	rng := rand.New(rand.NewSource(seed))
	deadline := time.Time{}
	if spec.MaxSecs > 0 {
		deadline = t0.Add(time.Duration(spec.MaxSecs) * time.Second)
	}
	var wg sync.WaitGroup
	for w := 0; w < nw; w++ {
		wg.Add(1)
		go func(w int) {
			defer wg.Done()
			we := &Engine{prog: prog, solver: newSolver(solverKind), funcs: map[string]bool{}, spec: spec, known: known}
			defer we.solver.close()
			defer func() {
				if r := recover(); r != nil {
					mu.Lock()
					switch x := r.(type) {
					case Unsupported:
						res.Err = "unsupported: " + x.Msg + " (in " + we.site() + ")"
					case solverError:
						res.Err = x.msg
					default:
						mu.Unlock()
						panic(r)
					}
					stop = true
					busy--
					mu.Unlock()
					cond.Broadcast()
				}
			}()
			for {
				mu.Lock()
				for len(work) == 0 && busy > 0 && !stop {
					cond.Wait()
				}
				if stop || (len(work) == 0 && busy == 0) {
					mu.Unlock()
					cond.Broadcast()
					break
				}
				d := work[len(work)-1]
				work = work[:len(work)-1]
				busy++
				// reservoir-free sampling: the first nsamples paths plus a seeded random subset
				wantSample := nsamples > 0 && (len(res.Samples) < nsamples/2 || rng.Intn(50) == 0) && len(res.Samples) < nsamples
				mu.Unlock()
				pr, alts := we.runPath(d, wantSample)
				mu.Lock()
				busy--
				work = append(work, alts...)
				if pr.feasible {
					res.Paths++
					res.Branches += pr.ndec
					if pr.ticks > res.MaxTicks {
						res.MaxTicks = pr.ticks
					}
					for c := range pr.covers {
						res.Covers[c] = true
					}
					if len(pr.fails) > 0 && len(res.Fails) < 200 {
						res.Fails = append(res.Fails, pr.fails...)
					}
					if pr.sample != nil && len(res.Samples) < nsamples {
						res.Samples = append(res.Samples, pr.sample)
					}
				} else {
					res.Infeasible++
				}
				if spec.MaxPaths > 0 && res.Paths >= spec.MaxPaths && len(work) > 0 {
					res.Incomplete = fmt.Sprintf("path budget %d reached", spec.MaxPaths)
					stop = true
				}
				if !deadline.IsZero() && time.Now().After(deadline) && (len(work) > 0 || busy > 0) {
					res.Incomplete = fmt.Sprintf("time budget %ds reached", spec.MaxSecs)
					stop = true
				}
				mu.Unlock()
				cond.Broadcast()
			}
			mu.Lock()
			res.Asserts += we.asserts
			res.AssertQ += we.assertQ
			res.NewBranches += we.nbranch
			res.Queries += we.solver.queries
			res.SolverS += we.solver.dur.Seconds()
			for f := range we.funcs {
				res.Funcs[f] = true
			}
			mu.Unlock()
		}(w)
	}
	wg.Wait()
	res.WallS = time.Since(t0).Seconds()
	return res
}
