package main

import (
	"fmt"
	"math/big"
	"strconv"
	"go/constant"
	"go/token"
	"go/types"
	"math"
	"math/bits"
	"strings"

	"golang.org/x/tools/go/ssa"
)

func (e *Engine) newObj(v Value) *Object {
	e.nobj++
	return &Object{ID: e.nobj, Val: v, Lazy: e.forcing > 0}
}

func cell(p *Ptr) *Value {
	cur := &p.Obj.Val
	for _, i := range p.Path {
		cur = &(*cur).(*StructV).F[i]
	}
	return cur
}

func (e *Engine) force(t *Thunk) Value {
	if !t.Forced {
		t.Forced = true
		saveScope, saveRO := e.scope, e.readonly
		e.scope = t.Scope
		e.forcing++
		t.Val = e.call(t.Gen, []Value{t.Sum})
		e.forcing--
		e.scope, e.readonly = saveScope, saveRO
		if inner, ok := t.Val.(*Thunk); ok {
			t.Val = e.force(inner)
		}
	}
	return t.Val
}

// fv forces a value if it is a thunk.
func (e *Engine) fv(v Value) Value {
	if t, ok := v.(*Thunk); ok {
		return e.force(t)
	}
	return v
}

func (e *Engine) symCells(pp *Ptr) []Value {
	var arr Value = pp.Obj.Val
	for _, i := range pp.Path {
		arr = arr.(*StructV).F[i]
	}
	return arr.(*StructV).F
}

func (e *Engine) load(p Value) Value {
	pp, ok := p.(*Ptr)
	if !ok {
		e.goPanic("invalid memory address or nil pointer dereference")
	}
	if pp.Sym != nil {
		cells := e.symCells(pp)
		var expr Value = e.fv(cells[pp.Base+pp.N-1])
		for j := pp.N - 2; j >= 0; j-- {
			c := e.mk("Bool", fmt.Sprintf("(= %s %d)", pp.Sym.S, j))
			expr = e.ite(c, e.fv(cells[pp.Base+j]), expr)
		}
		return expr
	}
	c := cell(pp)
	if t, ok := (*c).(*Thunk); ok {
		*c = e.force(t)
	}
	return copyVal(*c)
}

// noteStore is the write-set instrumentation (C18 read-only operations, C12/C16 "unchanged"): a store of `new` over `old`
// into an object that existed before the operation. The store counts only if the value can differ (the difference
// becomes part of the obligation, so a counterexample really changes memory and reproduces natively).
func (e *Engine) noteStore(o *Object, old, new Value) {
	e.noteChange(o.ID <= e.watermark || o.Lazy, old, new, "store to an object that existed before a read-only operation")
}

func (e *Engine) noteChange(shared bool, old, new Value, msg string) {
	if e.forcing > 0 || !shared || (!e.readonly && !e.tracking) {
		return
	}
	var diff Value = true
	old, new = e.fvQuiet(old), e.fvQuiet(new)
	switch {
	case isScalar(old) && isScalar(new) && sortOf(old) == sortOf(new):
		diff = e.boolNot(e.eqVals(old, new))
	case sameRef(old, new):
		diff = false
	}
	if c, ok := diff.(bool); ok && !c {
		return
	}
	if e.tracking {
		e.changed = e.boolOr(e.changed, diff)
	}
	if e.readonly {
		if _, ok := diff.(bool); ok {
			e.fail("write", msg, "")
		} else {
			e.fail("write", msg, lit(diff))
		}
	}
}

// fvQuiet: a forced thunk's value, without forcing.
func (e *Engine) fvQuiet(v Value) Value {
	if t, ok := v.(*Thunk); ok && t.Forced {
		return t.Val
	}
	return v
}

func sameRef(a, b Value) bool {
	switch x := a.(type) {
	case Nil:
		_, ok := b.(Nil)
		return ok
	case *Ptr:
		y, ok := b.(*Ptr)
		return ok && x.Obj == y.Obj && pathEq(x.Path, y.Path) && x.Sym == nil && y.Sym == nil
	case *SliceV:
		y, ok := b.(*SliceV)
		return ok && x.Arr == y.Arr && x.Off == y.Off && x.Len == y.Len && x.Cap == y.Cap
	case *MapV:
		y, ok := b.(*MapV)
		return ok && x.M == y.M
	case *Thunk:
		return a == b
	case *StructV:
		y, ok := b.(*StructV)
		if !ok || len(x.F) != len(y.F) {
			return false
		}
		for i := range x.F {
			if !(isScalar(x.F[i]) && isScalar(y.F[i]) && lit(x.F[i]) == lit(y.F[i])) && !sameRef(x.F[i], y.F[i]) {
				return false
			}
		}
		return true
	case string:
		y, ok := b.(string)
		return ok && x == y
	case *ssa.Function:
		return a == b
	}
	return false
}

// checkWrite: a store whose old/new values are not tracked individually (always counts).
func (e *Engine) checkWrite(o *Object) {
	e.noteChange(o.ID <= e.watermark || o.Lazy, int64(0), int64(1), "store to an object that existed before a read-only operation")
}

func (e *Engine) store(p Value, v Value) {
	pp, ok := p.(*Ptr)
	if !ok {
		e.goPanic("invalid memory address or nil pointer dereference")
	}
	if pp.Sym != nil {
		cells := e.symCells(pp)
		e.noteStore(pp.Obj, e.load(pp), v)
		for j := 0; j < pp.N; j++ {
			c := e.mk("Bool", fmt.Sprintf("(= %s %d)", pp.Sym.S, j))
			cells[pp.Base+j] = e.ite(c, v, e.fv(cells[pp.Base+j]))
		}
		return
	}
	e.noteStore(pp.Obj, *cell(pp), v)
	*cell(pp) = copyVal(v)
}

func isIntrinsic(fn *ssa.Function) (string, bool) {
	o := fn
	if fn.Origin() != nil {
		o = fn.Origin()
	}
	if o.Pkg != nil && strings.HasSuffix(o.Pkg.Pkg.Path(), "/zzvsup") && o.Synthetic == "" {
		return o.Name(), true
	}
	return "", false
}

func (e *Engine) call(fv Value, args []Value) Value {
	var fn *ssa.Function
	var env []Value
	switch f := fv.(type) {
	case *ssa.Function:
		fn = f
	case *Closure:
		fn, env = f.Fn, f.Env
	case Nil:
		e.goPanic("invalid memory address or nil pointer dereference (call of nil func)")
	default:
		unsupported("call of %T", fv)
	}
	if name, ok := isIntrinsic(fn); ok {
		return e.intrinsic(name, fn, args)
	}
	if fn.Name() == "init" && fn.Synthetic != "" && len(args) == 0 {
		return nil // dependencies' package initialisers: globals are initialised lazily per package
	}
	if r, ok := e.stub(fn, args); ok {
		return r
	}
	if fn.Blocks == nil {
		unsupported("external function %s", fn.String())
	}
	e.funcs[shortFn(fn)] = true
	e.depth++
	if e.depth > maxDepth {
		e.depth--
		e.fail("unwind", "call depth exceeds "+fmt.Sprint(maxDepth), "")
		panic(Infeasible{})
	}
	e.curFn = append(e.curFn, fn)
	r := e.run(fn, args, env)
	e.curFn = e.curFn[:len(e.curFn)-1]
	e.depth--
	return r
}

func intKind(t types.Type) (bits int, unsigned bool, ok bool) {
	b, isb := t.Underlying().(*types.Basic)
	if !isb || b.Info()&types.IsInteger == 0 {
		return 0, false, false
	}
	switch b.Kind() {
	case types.Int8:
		return 8, false, true
	case types.Int16:
		return 16, false, true
	case types.Int32:
		return 32, false, true
	case types.Int, types.Int64, types.UntypedInt, types.UntypedRune:
		return 64, false, true
	case types.Uint8:
		return 8, true, true
	case types.Uint16:
		return 16, true, true
	case types.Uint32:
		return 32, true, true
	case types.Uint, types.Uint64, types.Uintptr:
		return 64, true, true
	}
	return 0, false, false
}

func normInt(x int64, t types.Type) int64 {
	b, u, ok := intKind(t)
	if !ok || b == 64 {
		return x
	}
	switch {
	case b == 8 && !u:
		return int64(int8(x))
	case b == 16 && !u:
		return int64(int16(x))
	case b == 32 && !u:
		return int64(int32(x))
	case b == 8:
		return int64(uint8(x))
	case b == 16:
		return int64(uint16(x))
	case b == 32:
		return int64(uint32(x))
	}
	return x
}

func constVal(c *ssa.Const) Value {
	if c.Value == nil {
		return zero(c.Type())
	}
	t := c.Type().Underlying()
	if b, ok := t.(*types.Basic); ok {
		switch {
		case b.Info()&types.IsFloat != 0:
			f, _ := constant.Float64Val(constant.ToFloat(c.Value))
			if b.Kind() == types.Float32 {
				return float64(float32(f))
			}
			return f
		case b.Info()&types.IsInteger != 0:
			if i, ok := constant.Int64Val(constant.ToInt(c.Value)); ok {
				return i
			}
			u, _ := constant.Uint64Val(constant.ToInt(c.Value))
			return int64(u)
		case b.Info()&types.IsBoolean != 0:
			return constant.BoolVal(c.Value)
		case b.Info()&types.IsString != 0:
			return constant.StringVal(c.Value)
		}
	}
	switch c.Value.Kind() {
	case constant.Bool:
		return constant.BoolVal(c.Value)
	case constant.Int:
		i, _ := constant.Int64Val(c.Value)
		return i
	case constant.String:
		return constant.StringVal(c.Value)
	case constant.Float:
		f, _ := constant.Float64Val(c.Value)
		return f
	}
	panic(Unsupported{"const " + c.String()})
}

func addOv(a, b int64) (int64, bool) {
	c := a + b
	if (a > 0 && b > 0 && c < 0) || (a < 0 && b < 0 && c >= 0) {
		return c, true
	}
	return c, false
}

func (e *Engine) ptrEq(x, y Value) bool {
	_, xn := x.(Nil)
	_, yn := y.(Nil)
	if xn || yn {
		return xn && yn
	}
	switch a := x.(type) {
	case *Ptr:
		b, ok := y.(*Ptr)
		return ok && a.Obj == b.Obj && pathEq(a.Path, b.Path) && a.Sym == nil && b.Sym == nil
	case *MapV:
		b, ok := y.(*MapV)
		return ok && a.M == b.M
	case *SliceV:
		return false
	case *ssa.Function:
		return a == y
	case *Closure:
		return false
	}
	unsupported("pointer comparison of %T and %T", x, y)
	return false
}

func (e *Engine) binop(op token.Token, x, y Value, t types.Type) Value {
	x, y = e.fv(x), e.fv(y)
	switch x.(type) {
	case *Ptr, Nil, *SliceV, *MapV, *ssa.Function, *Closure:
		if _, isI := y.(*Iface); isI {
			break
		}
		eq := e.ptrEq(x, y)
		switch op {
		case token.EQL:
			return eq
		case token.NEQ:
			return !eq
		}
		unsupported("binop %v on pointers", op)
	}
	switch y.(type) {
	case *Ptr, Nil, *SliceV, *MapV:
		if _, isI := x.(*Iface); isI {
			break
		}
		eq := e.ptrEq(x, y)
		switch op {
		case token.EQL:
			return eq
		case token.NEQ:
			return !eq
		}
		unsupported("binop %v on pointers", op)
	}
	if xi, ok := x.(*Iface); ok {
		var eq Value = false
		switch yi := y.(type) {
		case *Iface:
			if types.Identical(xi.T, yi.T) {
				eq = e.binop(token.EQL, xi.V, yi.V, xi.T)
			}
		case Nil:
		default:
			unsupported("iface compare with %T", y)
		}
		if op == token.EQL {
			return eq
		}
		return e.boolNot(eq)
	}
	if _, ok := y.(*Iface); ok {
		return e.binop(op, y, x, t)
	}
	if xs, ok := x.(*StructV); ok {
		ys := y.(*StructV)
		var eq Value = true
		for i := range xs.F {
			eq = e.boolAnd(eq, e.binop(token.EQL, xs.F[i], ys.F[i], nil))
		}
		if op == token.EQL {
			return eq
		}
		return e.boolNot(eq)
	}
	// symbolic strings are integer atoms; the empty string is atom 0
	if sx, ok := x.(string); ok {
		if _, yt := y.(*Term); yt {
			if sx != "" {
				unsupported("comparison of a symbolic string with a concrete non-empty string")
			}
			x, t = int64(0), nil
		}
	}
	if sy, ok := y.(string); ok {
		if _, xt := x.(*Term); xt {
			if sy != "" {
				unsupported("comparison of a symbolic string with a concrete non-empty string")
			}
			y, t = int64(0), nil
		}
	}
	if t != nil {
		if b, ok := t.Underlying().(*types.Basic); ok && b.Info()&types.IsString != 0 {
			t = nil // atoms compare as mathematical integers
		}
	}
	xt, xs := x.(*Term)
	yt, ys := y.(*Term)
	if !xs && !ys {
		return e.concreteBinop(op, x, y, t)
	}
	if xs && ys && xt.S == yt.S {
		switch op {
		case token.EQL, token.LEQ, token.GEQ:
			return true
		case token.NEQ, token.LSS, token.GTR:
			return false
		}
	}
	if sortOf(x) == "Bool" {
		a, b := lit(x), lit(y)
		switch op {
		case token.EQL:
			return e.mk("Bool", "(= "+a+" "+b+")")
		case token.NEQ:
			return e.mk("Bool", "(not (= "+a+" "+b+"))")
		case token.AND, token.LAND:
			return e.boolAnd(x, y)
		case token.OR, token.LOR:
			return e.boolOr(x, y)
		}
		unsupported("bool binop %v", op)
	}

	width, unsigned := 64, false
	if t != nil {
		if b, u, ok := intKind(t); ok {
			width, unsigned = b, u
		}
	}
	if unsigned {
		return e.unsignedBinop(op, x, y, width)
	}
	a, b := lit(x), lit(y)
	xl, xh, xb := bounds(x)
	yl, yh, yb := bounds(y)
	tmin, tmax := int64(math.MinInt64), int64(math.MaxInt64)
	if width < 64 {
		tmin, tmax = -(1 << (width - 1)), (1<<(width-1))-1
	}
	wrap := func(s string, lo, hi int64, known bool) *Term {
		if known && lo >= tmin && hi <= tmax {
			return e.mkInt(s, true, lo, hi)
		}
		switch width {
		case 64:
			return e.mkInt("(wrap "+s+")", false, 0, 0)
		case 8:
			return e.mkInt("(wrap8 "+s+")", true, tmin, tmax)
		}
		unsupported("symbolic arithmetic at width %d", width)
		return nil
	}
	switch op {
	case token.ADD:
		lo, o1 := addOv(xl, yl)
		hi, o2 := addOv(xh, yh)
		return wrap("(+ "+a+" "+b+")", lo, hi, xb && yb && !o1 && !o2)
	case token.SUB:
		lo, o1 := addOv(xl, -yh)
		hi, o2 := addOv(xh, -yl)
		ok := xb && yb && !o1 && !o2 && yh != math.MinInt64 && yl != math.MinInt64
		return wrap("(- "+a+" "+b+")", lo, hi, ok)
	case token.MUL:
		c, okc := y.(int64)
		other, ol, oh, ob := a, xl, xh, xb
		if !okc {
			c, okc = x.(int64)
			other, ol, oh, ob = b, yl, yh, yb
		}
		if !okc {
			unsupported("symbolic * symbolic")
		}
		if ob {
			h1, l1 := bits.Mul64(uint64(abs64(ol)), uint64(abs64(c)))
			h2, l2 := bits.Mul64(uint64(abs64(oh)), uint64(abs64(c)))
			if h1 == 0 && h2 == 0 && l1 < 1<<62 && l2 < 1<<62 {
				p1, p2 := ol*c, oh*c
				return wrap("(* "+other+" "+lit(c)+")", min64(p1, p2), max64(p1, p2), true)
			}
		}
		if width != 64 {
			unsupported("symbolic mul at width %d", width)
		}
		return e.mkInt("(wrapm (* "+other+" "+lit(c)+"))", false, 0, 0)
	case token.QUO, token.REM:
		c, ok := y.(int64)
		if !ok {
			unsupported("symbolic division by a non-constant")
		}
		if c == 0 {
			e.goPanic("integer divide by zero")
		}
		neg := c < 0
		if neg {
			if c == math.MinInt64 {
				unsupported("division by MinInt64")
			}
			c = -c
		}
		if op == token.REM {
			lo, hi := -(c - 1), c-1
			if xb && xl >= 0 {
				lo = 0
			}
			if xb && xh <= 0 {
				hi = 0
			}
			return e.mkInt("(trem "+a+" "+lit(c)+")", true, lo, hi)
		}
		s := "(tdiv " + a + " " + lit(c) + ")"
		if neg {
			// x / -c == -(x / c); MinInt64 / -1 wraps
			return wrap("(- "+s+")", 0, 0, false)
		}
		if xb {
			return e.mkInt(s, true, xl/c, xh/c)
		}
		return e.mkInt(s, false, 0, 0)
	case token.SHR:
		c, ok := y.(int64)
		if !ok {
			unsupported("symbolic shift count")
		}
		if c < 0 {
			e.goPanic("negative shift amount")
		}
		if c >= 63 {
			return e.ite(e.mk("Bool", "(< "+a+" 0)"), int64(-1), int64(0))
		}
		s := "(div " + a + " " + lit(int64(1)<<uint(c)) + ")"
		if xb {
			return e.mkInt(s, true, xl>>uint(c), xh>>uint(c))
		}
		return e.mkInt(s, false, 0, 0)
	case token.SHL:
		c, ok := y.(int64)
		if !ok {
			unsupported("symbolic shift count")
		}
		if c < 0 {
			e.goPanic("negative shift amount")
		}
		if c >= 64 {
			return int64(0)
		}
		if c >= 62 {
			unsupported("symbolic << %d", c)
		}
		return e.binop(token.MUL, x, int64(1)<<uint(c), t)
	case token.EQL:
		if xb && yb && (xh < yl || yh < xl) {
			return false
		}
		return e.mk("Bool", "(= "+a+" "+b+")")
	case token.NEQ:
		if xb && yb && (xh < yl || yh < xl) {
			return true
		}
		return e.mk("Bool", "(not (= "+a+" "+b+"))")
	case token.LSS:
		if xb && yb && xh < yl {
			return true
		}
		if xb && yb && xl >= yh {
			return false
		}
		return e.mk("Bool", "(< "+a+" "+b+")")
	case token.LEQ:
		if xb && yb && xh <= yl {
			return true
		}
		if xb && yb && xl > yh {
			return false
		}
		return e.mk("Bool", "(<= "+a+" "+b+")")
	case token.GTR:
		return e.binop(token.LSS, y, x, t)
	case token.GEQ:
		return e.binop(token.LEQ, y, x, t)
	}
	unsupported("symbolic binop %v", op)
	return nil
}

// ulit: the mathematical (non-negative) value of an operand of an unsigned type. Symbolic unsigned terms are kept
// canonical in [0, 2^w) by the conversions and operations that produce them.
func ulit(v Value, width int) string {
	if c, ok := v.(int64); ok {
		if c < 0 {
			return new(big.Int).Add(big.NewInt(c), new(big.Int).Lsh(big.NewInt(1), 64)).String()
		}
		return strconv.FormatInt(c, 10)
	}
	return lit(v)
}

func pow2(w int) string { return new(big.Int).Lsh(big.NewInt(1), uint(w)).String() }

func (e *Engine) unsignedBinop(op token.Token, x, y Value, width int) Value {
	a, b := ulit(x, width), ulit(y, width)
	m := pow2(width)
	switch op {
	case token.EQL:
		return e.mk("Bool", "(= "+a+" "+b+")")
	case token.NEQ:
		return e.mk("Bool", "(not (= "+a+" "+b+"))")
	case token.LSS:
		return e.mk("Bool", "(< "+a+" "+b+")")
	case token.LEQ:
		return e.mk("Bool", "(<= "+a+" "+b+")")
	case token.GTR:
		return e.mk("Bool", "(> "+a+" "+b+")")
	case token.GEQ:
		return e.mk("Bool", "(>= "+a+" "+b+")")
	case token.ADD:
		return e.mkInt("(mod (+ "+a+" "+b+") "+m+")", false, 0, 0)
	case token.SUB:
		return e.mkInt("(mod (- "+a+" "+b+") "+m+")", false, 0, 0)
	}
	unsupported("symbolic unsigned %v", op)
	return nil
}

func abs64(x int64) int64 {
	if x < 0 {
		return -x
	}
	return x
}

func (e *Engine) concreteBinop(op token.Token, x, y Value, t types.Type) Value {
	switch a := x.(type) {
	case int64:
		b, ok := y.(int64)
		if !ok {
			unsupported("binop int with %T", y)
		}
		unsigned := false
		if t != nil {
			_, unsigned, _ = intKind(t)
		}
		var r int64
		switch op {
		case token.ADD:
			r = a + b
		case token.SUB:
			r = a - b
		case token.MUL:
			r = a * b
		case token.SHL:
			if b < 0 {
				e.goPanic("negative shift amount")
			}
			if b >= 64 {
				r = 0
			} else {
				r = a << uint(b)
			}
		case token.SHR:
			if b < 0 {
				e.goPanic("negative shift amount")
			}
			if unsigned {
				if b >= 64 {
					r = 0
				} else {
					r = int64(uint64(a) >> uint(b))
				}
			} else {
				if b >= 64 {
					b = 63
				}
				r = a >> uint(b)
			}
		case token.QUO:
			if b == 0 {
				e.goPanic("integer divide by zero")
			}
			if unsigned {
				r = int64(uint64(a) / uint64(b))
			} else {
				r = a / b
			}
		case token.REM:
			if b == 0 {
				e.goPanic("integer divide by zero")
			}
			if unsigned {
				r = int64(uint64(a) % uint64(b))
			} else {
				r = a % b
			}
		case token.XOR:
			r = a ^ b
		case token.AND:
			r = a & b
		case token.OR:
			r = a | b
		case token.AND_NOT:
			r = a &^ b
		case token.EQL:
			return a == b
		case token.NEQ:
			return a != b
		case token.LSS:
			if unsigned {
				return uint64(a) < uint64(b)
			}
			return a < b
		case token.LEQ:
			if unsigned {
				return uint64(a) <= uint64(b)
			}
			return a <= b
		case token.GTR:
			if unsigned {
				return uint64(a) > uint64(b)
			}
			return a > b
		case token.GEQ:
			if unsigned {
				return uint64(a) >= uint64(b)
			}
			return a >= b
		default:
			unsupported("int binop %v", op)
		}
		if t != nil {
			r = normInt(r, t)
		}
		return r
	case bool:
		b := y.(bool)
		switch op {
		case token.EQL:
			return a == b
		case token.NEQ:
			return a != b
		case token.AND, token.LAND:
			return a && b
		case token.OR, token.LOR:
			return a || b
		}
	case float64:
		b := y.(float64)
		f32 := false
		if t != nil {
			if bt, ok := t.Underlying().(*types.Basic); ok && bt.Kind() == types.Float32 {
				f32 = true
			}
		}
		rnd := func(f float64) Value {
			if f32 {
				return float64(float32(f))
			}
			return f
		}
		switch op {
		case token.ADD:
			return rnd(a + b)
		case token.SUB:
			return rnd(a - b)
		case token.MUL:
			return rnd(a * b)
		case token.QUO:
			return rnd(a / b)
		case token.EQL:
			return a == b
		case token.NEQ:
			return a != b
		case token.LSS:
			return a < b
		case token.LEQ:
			return a <= b
		case token.GTR:
			return a > b
		case token.GEQ:
			return a >= b
		}
	case string:
		b, ok := y.(string)
		if !ok {
			break
		}
		switch op {
		case token.ADD:
			return a + b
		case token.EQL:
			return a == b
		case token.NEQ:
			return a != b
		case token.LSS:
			return a < b
		case token.LEQ:
			return a <= b
		case token.GTR:
			return a > b
		case token.GEQ:
			return a >= b
		}
	case *Rope:
		if b, ok := y.(*Rope); ok && op == token.ADD {
			return &Rope{P: append(append([]Piece{}, a.P...), b.P...)}
		}
		if b, ok := y.(string); ok && op == token.ADD {
			return &Rope{P: append(append([]Piece{}, a.P...), Piece{S: b})}
		}
	}
	if a, ok := x.(string); ok {
		if b, ok := y.(*Rope); ok && op == token.ADD {
			return &Rope{P: append([]Piece{{S: a}}, b.P...)}
		}
	}
	unsupported("concrete binop %v on %T,%T", op, x, y)
	return nil
}

type frame struct {
	fn   *ssa.Function
	regs map[ssa.Value]Value
}

func (e *Engine) global(g *ssa.Global) *Object {
	if o, ok := e.globals[g]; ok {
		return o
	}
	o := e.newObj(zero(g.Type().(*types.Pointer).Elem()))
	o.Lazy = false
	o.ID = 0 // globals pre-exist every operation
	e.globals[g] = o
	// run the package initialiser (variable initialisers) of repository packages on first use
	if p := g.Pkg; p != nil && !e.inited[p] && strings.HasPrefix(p.Pkg.Path(), "github.com/emirpasic/gods") {
		e.inited[p] = true
		if init := p.Func("init"); init != nil && init.Blocks != nil {
			saveScope, saveRO, saveFn := e.scope, e.readonly, e.curFn
			e.scope, e.readonly = "init."+p.Pkg.Name(), false
			e.forcing++
			e.run(init, nil, nil)
			e.forcing--
			e.scope, e.readonly, e.curFn = saveScope, saveRO, saveFn
		}
	}
	return o
}

func (e *Engine) run(fn *ssa.Function, args []Value, env []Value) Value {
	regs := make(map[ssa.Value]Value, 32)
	for i, p := range fn.Params {
		regs[p] = args[i]
	}
	for i, fv := range fn.FreeVars {
		regs[fv] = env[i]
	}
	get := func(v ssa.Value) Value {
		switch x := v.(type) {
		case *ssa.Const:
			return constVal(x)
		case *ssa.Function:
			return x
		case *ssa.Global:
			return &Ptr{Obj: e.global(x)}
		case *ssa.Builtin:
			return x
		}
		r, ok := regs[v]
		if !ok {
			unsupported("unset register %s in %s", v.Name(), fn.String())
		}
		return r
	}
	var prev *ssa.BasicBlock
	b := fn.Blocks[0]
	for {
		var next *ssa.BasicBlock
		// phis first (parallel assignment)
		nphi := 0
		var phiVals []Value
		for _, in := range b.Instrs {
			phi, ok := in.(*ssa.Phi)
			if !ok {
				break
			}
			nphi++
			for i, p := range b.Preds {
				if p == prev {
					phiVals = append(phiVals, get(phi.Edges[i]))
					break
				}
			}
		}
		for i := 0; i < nphi; i++ {
			regs[b.Instrs[i].(*ssa.Phi)] = phiVals[i]
		}
		for _, in := range b.Instrs[nphi:] {
			e.steps++
			if e.steps > maxSteps {
				e.fail("unwind", fmt.Sprintf("more than %d instructions on one path (non-termination?)", maxSteps), "")
				panic(Infeasible{})
			}
			switch in := in.(type) {
			case *ssa.Alloc:
				o := e.newObj(zero(in.Type().(*types.Pointer).Elem()))
				regs[in] = &Ptr{Obj: o}
			case *ssa.FieldAddr:
				p, ok := e.fv(get(in.X)).(*Ptr)
				if !ok {
					e.goPanic("invalid memory address or nil pointer dereference")
				}
				if p.Sym != nil {
					unsupported("field of symbolic-index element")
				}
				regs[in] = &Ptr{Obj: p.Obj, Path: append(append(make([]int, 0, len(p.Path)+1), p.Path...), in.Field)}
			case *ssa.Field:
				regs[in] = copyVal(e.fv(get(in.X)).(*StructV).F[in.Field])
			case *ssa.MakeSlice:
				n := e.split(get(in.Len), 0, 64)
				c := e.split(get(in.Cap), 0, 64)
				if n < 0 || n > 1<<30 {
					e.goPanic("makeslice: len out of range")
				}
				if c < n {
					e.goPanic("makeslice: cap out of range")
				}
				el := in.Type().Underlying().(*types.Slice).Elem()
				arr := &StructV{F: make([]Value, c)}
				for i := range arr.F {
					arr.F[i] = zero(el)
				}
				regs[in] = &SliceV{e.newObj(arr), 0, n, c}
			case *ssa.Slice:
				regs[in] = e.sliceOp(in, get)
			case *ssa.MakeMap:
				e.nobj++
				regs[in] = &MapV{&MapObj{ID: e.nobj, Lazy: e.forcing > 0}}
			case *ssa.MapUpdate:
				mv, ok := e.fv(get(in.Map)).(*MapV)
				if !ok {
					e.goPanic("assignment to entry in nil map")
				}
				e.checkWriteMap(mv.M)
				k, v := get(in.Key), get(in.Value)
				if j := e.mapSlot(mv.M, k); j >= 0 {
					mv.M.Vals[j] = copyVal(v)
				} else {
					mv.M.Keys = append(mv.M.Keys, k)
					mv.M.Vals = append(mv.M.Vals, copyVal(v))
				}
			case *ssa.Lookup:
				regs[in] = e.lookup(in, get)
			case *ssa.Range:
				switch x := e.fv(get(in.X)).(type) {
				case *MapV:
					regs[in] = &MapIter{Keys: append([]Value{}, x.M.Keys...), Vals: append([]Value{}, x.M.Vals...)}
				case Nil:
					regs[in] = &MapIter{}
				case string:
					it := &MapIter{}
					for i, r := range x {
						it.Keys = append(it.Keys, int64(i))
						it.Vals = append(it.Vals, int64(r))
					}
					regs[in] = it
				default:
					unsupported("range over %T", x)
				}
			case *ssa.Next:
				it := get(in.Iter).(*MapIter)
				if it.Idx < len(it.Keys) {
					regs[in] = Tuple{true, it.Keys[it.Idx], copyVal(it.Vals[it.Idx])}
					it.Idx++
				} else {
					regs[in] = Tuple{false, nil, nil}
				}
			case *ssa.MakeInterface:
				regs[in] = &Iface{T: in.X.Type(), V: get(in.X)}
			case *ssa.ChangeInterface:
				regs[in] = get(in.X)
			case *ssa.TypeAssert:
				regs[in] = e.typeAssert(in, e.fv(get(in.X)))
			case *ssa.Panic:
				x := get(in.X)
				msg := "explicit panic"
				if i, ok := x.(*Iface); ok {
					msg = fmt.Sprintf("explicit panic: %v", showVal(i.V))
				}
				e.goPanic(msg)
			case *ssa.IndexAddr:
				regs[in] = e.indexAddr(in, e.fv(get(in.X)), get(in.Index))
			case *ssa.Index:
				x := e.fv(get(in.X))
				switch xv := x.(type) {
				case *StructV:
					idx := e.split(get(in.Index), 0, int64(len(xv.F))-1)
					if idx < 0 || idx >= int64(len(xv.F)) {
						e.goPanic("index out of range")
					}
					regs[in] = copyVal(xv.F[idx])
				case string:
					idx, ok := get(in.Index).(int64)
					if !ok {
						unsupported("symbolic string index")
					}
					if idx < 0 || idx >= int64(len(xv)) {
						e.goPanic("index out of range")
					}
					regs[in] = int64(xv[idx])
				default:
					unsupported("index of %T", x)
				}
			case *ssa.UnOp:
				x := get(in.X)
				switch in.Op {
				case token.MUL:
					regs[in] = e.load(e.fv(x))
				case token.NOT:
					regs[in] = e.boolNot(x)
				case token.SUB:
					switch c := x.(type) {
					case int64:
						regs[in] = normInt(-c, in.Type())
					case float64:
						regs[in] = -c
					default:
						regs[in] = e.binop(token.SUB, int64(0), x, in.Type())
					}
				case token.XOR:
					c, ok := x.(int64)
					if !ok {
						unsupported("symbolic ^x")
					}
					regs[in] = normInt(^c, in.Type())
				default:
					unsupported("unop %v", in.Op)
				}
			case *ssa.Store:
				e.store(e.fv(get(in.Addr)), get(in.Val))
			case *ssa.BinOp:
				regs[in] = e.binop(in.Op, get(in.X), get(in.Y), in.X.Type())
			case *ssa.ChangeType:
				regs[in] = get(in.X)
			case *ssa.Convert:
				regs[in] = e.convert(in, get(in.X))
			case *ssa.SliceToArrayPointer:
				unsupported("SliceToArrayPointer")
			case *ssa.MakeClosure:
				envv := make([]Value, len(in.Bindings))
				for i, bnd := range in.Bindings {
					envv[i] = get(bnd)
				}
				regs[in] = &Closure{in.Fn.(*ssa.Function), envv}
			case *ssa.Extract:
				regs[in] = get(in.Tuple).(Tuple)[in.Index]
			case *ssa.Call:
				regs[in] = e.doCall(&in.Call, in, get)
			case *ssa.If:
				if e.branch(get(in.Cond)) {
					next = b.Succs[0]
				} else {
					next = b.Succs[1]
				}
			case *ssa.Jump:
				next = b.Succs[0]
			case *ssa.Return:
				switch len(in.Results) {
				case 0:
					return nil
				case 1:
					return get(in.Results[0])
				}
				t := make(Tuple, len(in.Results))
				for i, r := range in.Results {
					t[i] = get(r)
				}
				return t
			case *ssa.DebugRef:
			default:
				unsupported("instruction %T in %s", in, fn.String())
			}
		}
		prev, b = b, next
	}
}

func (e *Engine) checkWriteMap(m *MapObj) {
	e.noteChange(m.ID <= e.watermark || m.Lazy, int64(0), int64(1), "update of a map that existed before a read-only operation")
}

func (e *Engine) noteMapStore(m *MapObj, old, new Value) {
	e.noteChange(m.ID <= e.watermark || m.Lazy, old, new, "update of a map that existed before a read-only operation")
}

func (e *Engine) doCall(c *ssa.CallCommon, in *ssa.Call, get func(ssa.Value) Value) Value {
	av := make([]Value, 0, len(c.Args)+1)
	if c.IsInvoke() {
		recv := e.fv(get(c.Value))
		ifc, ok := recv.(*Iface)
		if !ok {
			e.goPanic("invalid memory address or nil pointer dereference (method call on nil interface)")
		}
		m := e.prog.LookupMethod(ifc.T, c.Method.Pkg(), c.Method.Name())
		if m == nil {
			unsupported("no method %s on %v", c.Method.Name(), ifc.T)
		}
		av = append(av, ifc.V)
		for _, a := range c.Args {
			av = append(av, get(a))
		}
		return e.call(m, av)
	}
	for _, a := range c.Args {
		av = append(av, get(a))
	}
	if bi, ok := c.Value.(*ssa.Builtin); ok {
		return e.builtin(bi.Name(), av, in)
	}
	return e.call(e.fv(get(c.Value)), av)
}

func (e *Engine) typeAssert(in *ssa.TypeAssert, x Value) Value {
	ifc, isI := x.(*Iface)
	ok := false
	var val Value
	if isI {
		if types.IsInterface(in.AssertedType) {
			ok = types.Implements(ifc.T, in.AssertedType.Underlying().(*types.Interface))
			val = x
		} else {
			ok = types.Identical(ifc.T, in.AssertedType)
			val = ifc.V
		}
	}
	if in.CommaOk {
		if !ok {
			return Tuple{zero(in.AssertedType), false}
		}
		return Tuple{val, true}
	}
	if !ok {
		e.goPanic("interface conversion: type assertion failed")
	}
	return val
}

func (e *Engine) convert(in *ssa.Convert, x Value) Value {
	dst := in.Type().Underlying()
	src := in.X.Type().Underlying()
	if db, ok := dst.(*types.Basic); ok {
		switch v := x.(type) {
		case int64:
			switch {
			case db.Info()&types.IsInteger != 0:
				return normInt(v, dst)
			case db.Info()&types.IsFloat != 0:
				_, u, _ := intKind(src)
				var f float64
				if u {
					f = float64(uint64(v))
				} else {
					f = float64(v)
				}
				if db.Kind() == types.Float32 {
					return float64(float32(f))
				}
				return f
			case db.Info()&types.IsString != 0:
				return string(rune(v))
			}
		case float64:
			switch {
			case db.Info()&types.IsInteger != 0:
				return normInt(int64(v), dst)
			case db.Kind() == types.Float32:
				return float64(float32(v))
			case db.Info()&types.IsFloat != 0:
				return v
			}
		case *Term:
			if v.Sort == "Int" && db.Info()&types.IsInteger != 0 {
				bw, u, _ := intKind(dst)
				sw, su, _ := intKind(src)
				if u {
					// to unsigned: the value modulo 2^bw (canonical non-negative representative)
					if su && bw >= sw {
						return v
					}
					if v.HasB && v.Lo >= 0 && (bw == 64 || v.Hi < 1<<uint(bw)) {
						return v
					}
					t := e.mkInt("(mod "+v.S+" "+pow2(bw)+")", bw < 63, 0, 0)
					if bw < 63 {
						t.Lo, t.Hi = 0, (1<<uint(bw))-1
					}
					return t
				}
				if su {
					// unsigned to signed of at least the same width: reinterpret modulo 2^bw
					if v.HasB && v.Hi < 1<<uint(bw-1) {
						return v
					}
					if bw == 64 {
						return e.mkInt("(wrapm "+v.S+")", false, 0, 0)
					}
					unsupported("symbolic conversion from unsigned to a narrower signed type")
				}
				if bw >= sw {
					return v
				}
				if bw == 8 {
					if v.HasB && v.Lo >= -128 && v.Hi <= 127 {
						return v
					}
					return e.mkInt("(wrap8 "+v.S+")", true, -128, 127)
				}
				unsupported("symbolic narrowing to %d bits", bw)
			}
			if v.Sort == "Bool" {
				return v
			}
		case string:
			if db.Info()&types.IsString != 0 {
				return v
			}
		case *Rope:
			return v
		case *SliceV:
			// []byte -> string (concrete bytes)
			if db.Info()&types.IsString != 0 {
				bs := make([]byte, v.Len)
				for i := range bs {
					c, ok := v.Arr.Val.(*StructV).F[v.Off+int64(i)].(int64)
					if !ok {
						unsupported("string of symbolic bytes")
					}
					bs[i] = byte(c)
				}
				return string(bs)
			}
		case Nil:
			if db.Info()&types.IsString != 0 {
				return ""
			}
		}
	}
	if _, ok := dst.(*types.Slice); ok {
		switch v := x.(type) {
		case string:
			arr := &StructV{F: make([]Value, len(v))}
			for i := range arr.F {
				arr.F[i] = int64(v[i])
			}
			return &SliceV{e.newObj(arr), 0, int64(len(v)), int64(len(v))}
		case *Rope:
			return v
		}
	}
	unsupported("convert %T from %v to %v", x, in.X.Type(), in.Type())
	return nil
}

func (e *Engine) sliceOp(in *ssa.Slice, get func(ssa.Value) Value) Value {
	x := e.fv(get(in.X))
	var arrObj *Object
	var off, ln, cp int64
	var basePath []int
	switch v := x.(type) {
	case *SliceV:
		arrObj, off, ln, cp = v.Arr, v.Off, v.Len, v.Cap
	case *Ptr: // pointer to array
		arr, ok := (*cell(v)).(*StructV)
		if !ok {
			unsupported("slice of pointer to %T", *cell(v))
		}
		if len(v.Path) != 0 {
			basePath = v.Path
			unsupported("slicing an array embedded in a struct")
		}
		arrObj = v.Obj
		ln = int64(len(arr.F))
		cp = ln
	case Nil:
	case string:
		lo, hi := int64(0), int64(len(v))
		if in.Low != nil {
			lo = e.split(get(in.Low), 0, int64(len(v)))
		}
		if in.High != nil {
			hi = e.split(get(in.High), 0, int64(len(v)))
		}
		if lo < 0 || lo > hi || hi > int64(len(v)) {
			e.goPanic("slice bounds out of range")
		}
		return v[lo:hi]
	default:
		unsupported("slice of %T", x)
	}
	_ = basePath
	lo, hi := int64(0), ln
	if in.Low != nil {
		lo = e.splitAny(get(in.Low), cp)
	}
	if in.High != nil {
		hi = e.splitAny(get(in.High), cp)
	}
	mx := cp
	if in.Max != nil {
		mx = e.splitAny(get(in.Max), cp)
	}
	if lo < 0 || lo > hi || hi > mx || mx > cp {
		e.goPanic("slice bounds out of range")
	}
	if arrObj == nil {
		return Nil{}
	}
	return &SliceV{arrObj, off + lo, hi - lo, mx - lo}
}

// splitAny concretises an index-like value: in-range values are enumerated, out-of-range collapses to two cases.
func (e *Engine) splitAny(x Value, limit int64) int64 {
	switch v := x.(type) {
	case int64:
		return v
	case *Term:
		if e.branch(e.mk("Bool", "(< "+v.S+" 0)")) {
			return -1
		}
		if e.branch(e.mk("Bool", "(> "+v.S+" "+lit(limit)+")")) {
			return limit + 1
		}
		return e.split(v, 0, limit)
	}
	unsupported("index of type %T", x)
	return 0
}

func (e *Engine) indexAddr(in *ssa.IndexAddr, x Value, idxv Value) Value {
	switch xv := x.(type) {
	case *SliceV:
		if it, ok := idxv.(*Term); ok {
			inb := e.mk("Bool", fmt.Sprintf("(and (<= 0 %s) (< %s %d))", it.S, it.S, xv.Len))
			if !e.branch(inb) {
				e.goPanic("index out of range")
			}
			scalar := true
			cells := xv.Arr.Val.(*StructV).F
			for i := int64(0); i < xv.Len; i++ {
				if !isScalar(cells[xv.Off+i]) {
					scalar = false
					break
				}
			}
			if scalar && xv.Len > 1 {
				return &Ptr{Obj: xv.Arr, Sym: it, Base: int(xv.Off), N: int(xv.Len)}
			}
			idx := e.split(it, 0, xv.Len-1)
			return &Ptr{Obj: xv.Arr, Path: []int{int(xv.Off + idx)}}
		}
		idx, ok := idxv.(int64)
		if !ok {
			unsupported("index %T", idxv)
		}
		if idx < 0 || idx >= xv.Len {
			e.goPanic("index out of range")
		}
		return &Ptr{Obj: xv.Arr, Path: []int{int(xv.Off + idx)}}
	case Nil:
		e.goPanic("index out of range (nil slice)")
	case *Ptr:
		arr, ok := (*cell(xv)).(*StructV)
		if !ok {
			unsupported("indexaddr through pointer to %T", *cell(xv))
		}
		n := int64(len(arr.F))
		var idx int64
		if it, ok := idxv.(*Term); ok {
			inb := e.mk("Bool", fmt.Sprintf("(and (<= 0 %s) (< %s %d))", it.S, it.S, n))
			if !e.branch(inb) {
				e.goPanic("index out of range")
			}
			idx = e.split(it, 0, n-1)
		} else {
			idx = idxv.(int64)
		}
		if idx < 0 || idx >= n {
			e.goPanic("index out of range")
		}
		return &Ptr{Obj: xv.Obj, Path: append(append(make([]int, 0, len(xv.Path)+1), xv.Path...), int(idx))}
	}
	unsupported("indexaddr of %T", x)
	return nil
}

// mapSlot finds the slot of key k, forking on equality with symbolic keys.
func (e *Engine) mapSlot(m *MapObj, k Value) int {
	for j := range m.Keys {
		if e.branch(e.eqVals(k, m.Keys[j])) {
			return j
		}
	}
	return -1
}

func (e *Engine) lookup(in *ssa.Lookup, get func(ssa.Value) Value) Value {
	x := e.fv(get(in.X))
	if s, ok := x.(string); ok {
		idx, ok := get(in.Index).(int64)
		if !ok {
			unsupported("symbolic string index")
		}
		if idx < 0 || idx >= int64(len(s)) {
			e.goPanic("index out of range")
		}
		return int64(s[idx])
	}
	mt := in.X.Type().Underlying().(*types.Map)
	var found Value = false
	val := zero(mt.Elem())
	if mv, ok := x.(*MapV); ok {
		k := get(in.Index)
		mergeable := isScalar(val)
		if sv, ok := val.(*StructV); ok && len(sv.F) == 0 {
			mergeable = true
		}
		if mergeable {
			for j := len(mv.M.Keys) - 1; j >= 0; j-- {
				eq := e.eqVals(k, mv.M.Keys[j])
				found = e.boolOr(eq, found)
				if isScalar(val) {
					val = e.ite(eq, mv.M.Vals[j], val)
				}
			}
		} else if j := e.mapSlot(mv.M, k); j >= 0 {
			found, val = true, copyVal(mv.M.Vals[j])
		}
	}
	if in.CommaOk {
		return Tuple{val, found}
	}
	return val
}

func sliceParts(v Value) (*Object, int64, int64, int64) {
	if s, ok := v.(*SliceV); ok {
		return s.Arr, s.Off, s.Len, s.Cap
	}
	return nil, 0, 0, 0
}

func (e *Engine) builtin(name string, a []Value, in *ssa.Call) Value {
	for i := range a {
		a[i] = e.fv(a[i])
	}
	switch name {
	case "len":
		switch x := a[0].(type) {
		case *MapV:
			return int64(len(x.M.Keys))
		case string:
			return int64(len(x))
		case *Rope:
			unsupported("len of an opaque string")
		}
		_, _, n, _ := sliceParts(a[0])
		return n
	case "cap":
		_, _, _, c := sliceParts(a[0])
		return c
	case "delete":
		if mv, ok := a[0].(*MapV); ok {
			if j := e.mapSlot(mv.M, a[1]); j >= 0 {
				e.checkWriteMap(mv.M)
				mv.M.Keys = append(append([]Value{}, mv.M.Keys[:j]...), mv.M.Keys[j+1:]...)
				mv.M.Vals = append(append([]Value{}, mv.M.Vals[:j]...), mv.M.Vals[j+1:]...)
			}
		}
		return nil
	case "clear":
		if mv, ok := a[0].(*MapV); ok {
			e.checkWriteMap(mv.M)
			mv.M.Keys, mv.M.Vals = nil, nil
		}
		if sl, ok := a[0].(*SliceV); ok {
			el := in.Call.Args[0].Type().Underlying().(*types.Slice).Elem()
			for i := int64(0); i < sl.Len; i++ {
				e.noteStore(sl.Arr, sl.Arr.Val.(*StructV).F[sl.Off+i], zero(el))
				sl.Arr.Val.(*StructV).F[sl.Off+i] = zero(el)
			}
		}
		return nil
	case "append":
		sa, so, sn, sc := sliceParts(a[0])
		var src []Value
		switch t := a[1].(type) {
		case *SliceV:
			for i := int64(0); i < t.Len; i++ {
				src = append(src, t.Arr.Val.(*StructV).F[t.Off+i])
			}
		case Nil:
		case string:
			for i := 0; i < len(t); i++ {
				src = append(src, int64(t[i]))
			}
		default:
			unsupported("append of %T", a[1])
		}
		tn := int64(len(src))
		if tn == 0 {
			return a[0]
		}
		if sn+tn <= sc {
			for i := int64(0); i < tn; i++ {
				e.noteStore(sa, sa.Val.(*StructV).F[so+sn+i], src[i])
				sa.Val.(*StructV).F[so+sn+i] = copyVal(src[i])
			}
			return &SliceV{sa, so, sn + tn, sc}
		}
		// growth: new backing array; spare capacity is a configuration choice (runtime-dependent in Go)
		spare := e.spec.Cfg["appendspare"]
		arr := &StructV{F: make([]Value, 0, sn+tn+spare)}
		for i := int64(0); i < sn; i++ {
			arr.F = append(arr.F, copyVal(sa.Val.(*StructV).F[so+i])) // struct elements are values: the new array gets copies
		}
		for _, s := range src {
			arr.F = append(arr.F, copyVal(s))
		}
		el := in.Type().Underlying().(*types.Slice).Elem()
		for i := int64(0); i < spare; i++ {
			arr.F = append(arr.F, zero(el))
		}
		return &SliceV{e.newObj(arr), 0, sn + tn, sn + tn + spare}
	case "copy":
		da, do, dn, _ := sliceParts(a[0])
		var src []Value
		switch t := a[1].(type) {
		case *SliceV:
			for i := int64(0); i < t.Len; i++ {
				src = append(src, t.Arr.Val.(*StructV).F[t.Off+i])
			}
		case string:
			for i := 0; i < len(t); i++ {
				src = append(src, int64(t[i]))
			}
		case Nil:
		}
		n := dn
		if int64(len(src)) < n {
			n = int64(len(src))
		}
		for i := int64(0); i < n; i++ {
			e.noteStore(da, da.Val.(*StructV).F[do+i], src[i])
			da.Val.(*StructV).F[do+i] = copyVal(src[i])
		}
		return n
	case "min", "max":
		r := a[0]
		for _, x := range a[1:] {
			var c Value
			if name == "min" {
				c = e.binop(token.LSS, x, r, in.Type())
			} else {
				c = e.binop(token.GTR, x, r, in.Type())
			}
			r = e.ite(c, x, r)
		}
		return r
	case "print", "println":
		e.outputEvent(name)
		return nil
	case "ssa:wrapnilchk":
		if _, ok := a[0].(Nil); ok {
			e.goPanic("value method called using nil pointer")
		}
		return a[0]
	}
	unsupported("builtin %s", name)
	return nil
}

func (e *Engine) outputEvent(what string) {
	e.outputs++
	e.fail("output", "writes to standard output/error via "+what, "")
}
