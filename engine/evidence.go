package main

import (
	"encoding/json"
	"fmt"
	"os"
	"path/filepath"
	"sort"
	"strings"
)

func writeEvidence(sum *Summary, prop, tier string, opt options, l *Loaded, wall float64, code int) error {
	paths, branches, queries, validated, asserts, infeasible := 0, 0, 0, 0, 0, 0
	solverS := 0.0
	funcs := map[string]bool{}
	var runs []map[string]interface{}
	var samples []interface{}
	var incomplete []string
	for _, r := range sum.Runs {
		paths += r.Paths
		branches += r.Branches
		queries += r.Queries
		validated += r.Validated
		asserts += r.Asserts
		infeasible += r.Infeasible
		solverS += r.SolverS
		for f := range r.Funcs {
			if !strings.Contains(f, ".VH") && !strings.Contains(f, ".vh") && !strings.Contains(f, "zzvsup") {
				funcs[f] = true
			}
		}
		runs = append(runs, map[string]interface{}{
			"harness": r.Spec.Pkg + "." + r.Spec.Harness, "bounds": r.Spec.Cfg, "paths": r.Paths, "dead_prefixes": r.Infeasible,
			"branch_decisions": r.Branches, "assertions_checked": r.Asserts, "queries": r.Queries, "solver_s": round(r.SolverS), "wall_s": round(r.WallS),
			"failing": len(r.Fails), "validated_natively": r.Validated, "max_comparator_calls": r.MaxTicks,
			"incomplete": r.Incomplete, "error": r.Err, "second_solver": r.CrossSolver, "second_solver_paths": r.CrossPaths,
		})
		if r.Incomplete != "" {
			incomplete = append(incomplete, r.Spec.String()+": "+r.Incomplete)
		}
		for i, s := range r.Samples {
			if i >= 2 || len(samples) >= 12 {
				break
			}
			samples = append(samples, map[string]interface{}{"harness": r.Spec.Pkg + "." + r.Spec.Harness, "bounds": r.Spec.Cfg,
				"path_decisions": s.Dec, "model_of_path_condition": trimModel(s.Model, 30), "outcome": "all obligations unsat (hold) on this path"})
		}
	}
	for _, v := range sum.Violations {
		samples = append(samples, map[string]interface{}{"harness": v.Pkg + "." + v.Harn, "bounds": v.Cfg, "counterexample": trimModel(v.Model, 40),
			"kind": v.Kind, "label": v.Label, "site": v.Site, "native": v.Native, "replay": v.Replay})
	}
	for _, v := range sum.Known {
		samples = append(samples, map[string]interface{}{"harness": v.Pkg + "." + v.Harn, "bounds": v.Cfg, "known_finding": v.Known,
			"kind": v.Kind, "label": v.Label, "site": v.Site, "model": trimModel(v.Model, 20)})
	}
	if len(samples) == 0 {
		samples = append(samples, map[string]interface{}{"note": "no path completed", "problems": sum.Problems})
	}
	var unconf []string
	for _, u := range sum.Unconfirmed {
		unconf = append(unconf, fmt.Sprintf("%s.%s %s %q at %s native=%q", u.Pkg, u.Harn, u.Kind, u.Label, u.Site, u.Native))
	}
	if paths == 0 {
		paths = 0
	}
	seed := int(opt.seed)
	ev := map[string]interface{}{
		"property_id": prop,
		"tier":        tier,
		"seed":        seed,
		"level":       "model_checking",
		"coverage": map[string]interface{}{
			"states":                        max(paths, 1),
			"transitions":                   max(branches, 1),
			"traces_validated_against_impl": validated,
			"samples":                       samples,
			"exhaustive":                    len(incomplete) == 0 && len(sum.Problems) == 0,
			"explanation": "states = feasible symbolic paths explored to the end (each path stands for every concrete input and pre-state satisfying its path condition); " +
				"transitions = solver-decided symbolic branch points on those paths; traces_validated = sampled passing paths whose solver model was replayed natively (go test -overlay) with identical outcome and observations. " +
				"Every path of every listed harness was explored within the listed bounds unless listed under incomplete.",
			"functions_encoded":   sortedKeys(funcs),
			"harness_runs":        runs,
			"queries":             queries,
			"assertions_checked":  asserts,
			"dead_prefixes":       infeasible,
			"solver_s":            round(solverS),
			"solver":              "z3 4.8.12 over a pipe (z3 -in), integer encoding with exact mod-2^64 wrap",
			"incomplete":          incomplete,
			"unconfirmed":         unconf,
			"problems":            sum.Problems,
			"notes":               sum.Notes,
			"known_findings_seen": len(sum.Known),
			"harness_runs_cross_checked_with_second_solver": sum.CrossChecked,
			"exit_code":           code,
		},
		"assumptions": []string{
			"bounded claim: holds for every input value and every pre-state within the bounds listed per harness run; nothing is claimed outside them",
			"pre-states are all heaps satisfying the representation invariant written in the harness generator (checked tight against reachable states natively, DESIGN.md section 2.8)",
			"element/key type int (64-bit, exact wrap-around); other element types are not instantiated",
			"environment stubs: fmt/strings/bytes.Buffer as rope operations, encoding/json as the abstract codec of DESIGN.md Appendix B, Go maps as association lists (iteration in slot order), append growth capacity per configuration",
			"go/ssa (x/tools v0.29.0) is a faithful lowering of the source; z3 answers are correct",
		},
		"wall_s":     round(wall),
		"violations": len(sum.Violations),
	}
	b, err := json.MarshalIndent(ev, "", " ")
	if err != nil {
		return err
	}
	dir := filepath.Join(opt.outDir(), "evidence")
	os.MkdirAll(dir, 0755)
	return os.WriteFile(filepath.Join(dir, prop+".json"), b, 0644)
}

func round(f float64) float64 { return float64(int(f*100+0.5)) / 100 }

func trimModel(m map[string]string, n int) map[string]string {
	if len(m) <= n {
		return m
	}
	var ks []string
	for k := range m {
		ks = append(ks, k)
	}
	sort.Slice(ks, func(i, j int) bool {
		if len(ks[i]) != len(ks[j]) {
			return len(ks[i]) < len(ks[j])
		}
		return ks[i] < ks[j]
	})
	out := map[string]string{}
	for _, k := range ks[:n] {
		out[k] = m[k]
	}
	out["..."] = fmt.Sprintf("%d more", len(m)-n)
	return out
}
