package main

import (
	"fmt"
	"go/types"
	"sort"

	"golang.org/x/tools/go/ssa"
)

func (e *Engine) cfg(name string) (int64, bool) {
	v, ok := e.spec.Cfg[name]
	return v, ok
}

func str(v Value) string {
	s, ok := v.(string)
	if !ok {
		unsupported("intrinsic expects a constant string, got %T", v)
	}
	return s
}

func (e *Engine) intrinsic(name string, fn *ssa.Function, a []Value) Value {
	switch name {
	case "Symbolic":
		return true
	case "Concrete":
		_, ok := a[0].(bool)
		return ok
	case "Cfg":
		v, ok := e.cfg(str(a[0]))
		if !ok {
			unsupported("harness %s needs config %q", e.spec.Harness, str(a[0]))
		}
		return v
	case "CfgOr":
		if v, ok := e.cfg(str(a[0])); ok {
			return v
		}
		return a[1]
	case "Int":
		return e.fresh(str(a[0]), "Int")
	case "Bool":
		return e.fresh(str(a[0]), "Bool")
	case "IntIn":
		lo, ok1 := a[1].(int64)
		hi, ok2 := a[2].(int64)
		if !ok1 || !ok2 {
			unsupported("IntIn with symbolic bounds")
		}
		if lo == hi {
			// still consume a name so native replay stays aligned
			e.name(str(a[0]))
			return lo
		}
		return e.freshIn(str(a[0]), lo, hi)
	case "Assume":
		e.assume(a[0])
		return nil
	case "Assert":
		e.assert(a[0], str(a[1]))
		return nil
	case "Ite":
		return e.ite(a[0], a[1], a[2])
	case "Or":
		return e.boolOr(a[0], a[1])
	case "And":
		return e.boolAnd(a[0], a[1])
	case "Implies":
		return e.boolOr(e.boolNot(a[0]), a[1])
	case "Split":
		lo, hi := a[1].(int64), a[2].(int64)
		return e.split(a[0], lo, hi)
	case "Pred", "Fn":
		id := "U_" + str(a[0])
		sortR := "Bool"
		if name == "Fn" {
			sortR = "Int"
		}
		if !e.ufs[id] {
			e.ufs[id] = true
			e.solver.send("(declare-fun " + id + " (Int Int) " + sortR + ")")
		}
		t := e.mk(sortR, fmt.Sprintf("(%s %s %s)", id, lit(a[1]), lit(a[2])))
		if name == "Fn" {
			// results are Go ints
			e.solver.send("(assert (and (<= (- 9223372036854775808) " + t.S + ") (<= " + t.S + " 9223372036854775807)))")
		}
		e.ufApps = append(e.ufApps, ufApp{id[2:], e.atom(a[1]), e.atom(a[2]), e.atom(t)})
		return t
	case "Tick":
		e.ticks[str(a[0])]++
		return nil
	case "Ticks":
		return int64(e.ticks[str(a[0])])
	case "Lazy", "LazySlice":
		key := e.scope + "/.L"
		e.scopeCnt[key]++
		t := &Thunk{Gen: a[0], Sum: a[1], Scope: fmt.Sprintf("%s.L%d", e.scope, e.scopeCnt[key])}
		e.thunks = append(e.thunks, t)
		return t
	case "Peek", "PeekSlice":
		p, ok := a[0].(*Ptr)
		if !ok {
			unsupported("Peek of %T", a[0])
		}
		if t, ok := (*cell(p)).(*Thunk); ok && !t.Forced {
			return t.Sum
		}
		return Nil{}
	case "BeginOp":
		e.watermark = e.nobj
		ro, _ := a[0].(bool)
		e.readonly = ro
		return nil
	case "EndOp":
		e.readonly = false
		return nil
	case "Fresh":
		// marks everything allocated so far as pre-existing without making the operation read-only
		e.watermark = e.nobj
		return nil
	case "ExpectPanic":
		return e.expectPanic(a[0])
	case "Cover":
		e.covers[str(a[0])] = true
		return nil
	case "Observe":
		e.obsVals = append(e.obsVals, obs{str(a[0]), e.atom(a[1])})
		return nil
	case "Disjoint":
		return e.disjoint(a[0], a[1])
	case "SameObject":
		return e.ptrEq(e.unwrapIface(a[0]), e.unwrapIface(a[1]))
	case "Str":
		// a symbolic string: an order-isomorphic atom (0 is the empty string); only compared, stored, (un)marshalled
		return e.freshIn(str(a[0]), 1, 1<<40)
	case "StrOf":
		return a[0]
	case "IntOf":
		if s, ok := a[0].(string); ok {
			if s != "" {
				unsupported("IntOf of a concrete non-empty string")
			}
			return int64(0)
		}
		return a[0]
	case "JSONDoc":
		return e.jsonDocIntrinsic(a, false)
	case "JSONDocS":
		return e.jsonDocIntrinsic(a, true)
	case "JSONKind":
		return e.jsonKind(a[0])
	case "Track":
		e.watermark = e.nobj
		e.tracking = true
		e.changed = false
		return nil
	case "Changed":
		return e.changed
	case "JSONInput":
		return &Rope{P: []Piece{{Opq: true, What: "json", Doc: &JDoc{Kind: "input", Input: &JInput{Tag: e.name(str(a[0])), BadAt: -1}}}}}
	case "Unsupported":
		unsupported("harness: %s", str(a[0]))
	}
	unsupported("intrinsic %s", name)
	return nil
}

type ufApp struct{ id, an, bn, rn string }
type obs struct{ tag, n string }

func (e *Engine) unwrapIface(v Value) Value {
	v = e.fv(v)
	if i, ok := v.(*Iface); ok {
		return e.fv(i.V)
	}
	return v
}

func (e *Engine) expectPanic(f Value) (res Value) {
	saveFn := len(e.curFn)
	saveDepth := e.depth
	defer func() {
		if r := recover(); r != nil {
			if _, ok := r.(PanicEvt); ok {
				e.curFn = e.curFn[:saveFn]
				e.depth = saveDepth
				res = true
				return
			}
			panic(r)
		}
	}()
	e.call(f, nil)
	return false
}

// reach collects the mutable objects reachable from v.
func (e *Engine) reach(v Value, objs map[interface{}]bool) {
	switch x := v.(type) {
	case *Thunk:
		if x.Forced {
			e.reach(x.Val, objs)
		} else {
			objs[x] = true
		}
	case *Ptr:
		if objs[x.Obj] {
			return
		}
		objs[x.Obj] = true
		e.reach(x.Obj.Val, objs)
	case *StructV:
		for _, f := range x.F {
			e.reach(f, objs)
		}
	case *SliceV:
		// the cells a slice can reach are [Off, Off+Cap), not only [Off, Off+Len); a zero-capacity window is no memory
		cells := x.Arr.Val.(*StructV).F
		for i := x.Off; i < x.Off+x.Cap && i < int64(len(cells)); i++ {
			k := cellKey{x.Arr, i}
			if objs[k] {
				continue
			}
			objs[k] = true
			e.reach(cells[i], objs)
		}
	case *MapV:
		if objs[x.M] {
			return
		}
		objs[x.M] = true
		for i := range x.M.Keys {
			e.reach(x.M.Keys[i], objs)
			e.reach(x.M.Vals[i], objs)
		}
	case *Iface:
		e.reach(x.V, objs)
	case *Closure:
		for _, b := range x.Env {
			e.reach(b, objs)
		}
	case Tuple:
		for _, f := range x {
			e.reach(f, objs)
		}
	}
}

type cellKey struct {
	arr *Object
	idx int64
}

func (e *Engine) disjoint(a, b Value) Value {
	ra, rb := map[interface{}]bool{}, map[interface{}]bool{}
	e.reach(a, ra)
	e.reach(b, rb)
	for o := range ra {
		if rb[o] {
			return false
		}
	}
	return true
}

var _ = types.Identical
var _ = sort.Strings
