package main

import (
	"math/bits"
	"strings"

	"golang.org/x/tools/go/ssa"
)

// ReflectV models reflect.Value for the single use in the library: ValueOf(f).Pointer().
type ReflectV struct{ V Value }

func ropeOf(v Value) *Rope {
	switch x := v.(type) {
	case string:
		if x == "" {
			return &Rope{}
		}
		return &Rope{P: []Piece{{S: x}}}
	case *Rope:
		return x
	case Nil:
		return &Rope{}
	case *SliceV: // concrete []byte
		bs := make([]byte, x.Len)
		for i := range bs {
			c, ok := x.Arr.Val.(*StructV).F[x.Off+int64(i)].(int64)
			if !ok {
				unsupported("symbolic byte in []byte")
			}
			bs[i] = byte(c)
		}
		return ropeOf(string(bs))
	}
	unsupported("rope of %T", v)
	return nil
}

func ropeCat(rs ...*Rope) *Rope {
	out := &Rope{}
	for _, r := range rs {
		for _, p := range r.P {
			if !p.Opq && len(out.P) > 0 && !out.P[len(out.P)-1].Opq {
				out.P[len(out.P)-1].S += p.S
				continue
			}
			if !p.Opq && p.S == "" {
				continue
			}
			out.P = append(out.P, p)
		}
	}
	return out
}

// simplify returns a plain Go string when the rope is fully concrete.
func ropeVal(r *Rope) Value {
	if len(r.P) == 0 {
		return ""
	}
	if len(r.P) == 1 && !r.P[0].Opq {
		return r.P[0].S
	}
	return r
}

func (e *Engine) sprintf(format string, args []Value) *Rope {
	out := &Rope{}
	ai := 0
	i := 0
	for i < len(format) {
		j := strings.IndexByte(format[i:], '%')
		if j < 0 {
			out = ropeCat(out, ropeOf(format[i:]))
			break
		}
		out = ropeCat(out, ropeOf(format[i:i+j]))
		i += j + 1
		// flags/width
		for i < len(format) && strings.IndexByte("+-# 0123456789.", format[i]) >= 0 {
			i++
		}
		if i >= len(format) {
			break
		}
		verb := format[i]
		i++
		if verb == '%' {
			out = ropeCat(out, ropeOf("%"))
			continue
		}
		var arg Value
		if ai < len(args) {
			arg = args[ai]
			ai++
		}
		if ifc, ok := arg.(*Iface); ok {
			arg = ifc.V
		}
		switch a := arg.(type) {
		case string:
			if verb == 's' || verb == 'v' {
				out = ropeCat(out, ropeOf(a))
				continue
			}
		case *Rope:
			if verb == 's' || verb == 'v' {
				out = ropeCat(out, a)
				continue
			}
		}
		out = ropeCat(out, &Rope{P: []Piece{{Opq: true, What: "fmt", Args: []Value{arg}}}})
	}
	return out
}

func sliceVals(v Value) []Value {
	s, ok := v.(*SliceV)
	if !ok {
		return nil
	}
	return s.Arr.Val.(*StructV).F[s.Off : s.Off+s.Len]
}

func (e *Engine) stub(fn *ssa.Function, a []Value) (Value, bool) {
	if fn.Pkg != nil && strings.HasPrefix(fn.Pkg.Pkg.Path(), "github.com/emirpasic/gods") {
		return nil, false
	}
	name := fn.String()
	if o := fn.Origin(); o != nil {
		name = o.String()
	}
	for i := range a {
		a[i] = e.fv(a[i])
	}
	switch name {
	case "fmt.Sprintf":
		return ropeVal(e.sprintf(str(a[0]), sliceVals(a[1]))), true
	case "fmt.Sprint", "fmt.Sprintln":
		out := &Rope{}
		for _, x := range sliceVals(a[0]) {
			out = ropeCat(out, e.sprintf("%v", []Value{x}))
		}
		return ropeVal(out), true
	case "fmt.Println", "fmt.Printf", "fmt.Print", "fmt.Fprintf", "fmt.Fprintln", "fmt.Fprint",
		"log.Println", "log.Printf", "log.Print", "log.Fatal", "log.Fatalf", "(*os.File).Write", "(*os.File).WriteString":
		if strings.HasPrefix(name, "fmt.Fp") {
			// a writer that is an in-memory buffer is not the process's output
			if w, ok := a[0].(*Iface); ok {
				if ts := w.T.String(); ts == "*strings.Builder" || ts == "*bytes.Buffer" {
					p := bufPtr(w.V)
					var r *Rope
					switch name {
					case "fmt.Fprintf":
						r = e.sprintf(str(a[1]), sliceVals(a[2]))
					case "fmt.Fprint":
						r = &Rope{}
						for _, x := range sliceVals(a[1]) {
							r = ropeCat(r, e.sprintf("%v", []Value{x}))
						}
					default:
						unsupported("fmt.Fprintln into a buffer")
					}
					p.Obj.Val = ropeCat(p.Obj.Val.(*Rope), r)
					return Tuple{int64(0), Nil{}}, true
				}
			}
		}
		e.outputEvent(name)
		switch name {
		case "fmt.Println", "fmt.Printf", "fmt.Print", "fmt.Fprintf", "fmt.Fprintln", "fmt.Fprint", "(*os.File).Write", "(*os.File).WriteString":
			return Tuple{int64(0), Nil{}}, true
		}
		return nil, true
	case "strings.Join":
		sep := ropeOf(a[1])
		out := &Rope{}
		for i, x := range sliceVals(a[0]) {
			if i > 0 {
				out = ropeCat(out, sep)
			}
			out = ropeCat(out, ropeOf(x))
		}
		return ropeVal(out), true
	case "strings.Repeat":
		n, ok := a[1].(int64)
		if !ok {
			unsupported("strings.Repeat with symbolic count")
		}
		if n < 0 {
			e.goPanic("strings: negative Repeat count")
		}
		out := &Rope{}
		r := ropeOf(a[0])
		for i := int64(0); i < n; i++ {
			out = ropeCat(out, r)
		}
		return ropeVal(out), true
	case "strings.TrimRight":
		if s, ok := a[0].(string); ok {
			return strings.TrimRight(s, str(a[1])), true
		}
		r := ropeOf(a[0])
		out := &Rope{P: append([]Piece{}, r.P...)}
		if n := len(out.P); n > 0 && !out.P[n-1].Opq {
			out.P[n-1].S = strings.TrimRight(out.P[n-1].S, str(a[1]))
		}
		return ropeVal(ropeCat(out)), true
	case "strings.HasPrefix":
		if s, ok := a[0].(string); ok {
			return strings.HasPrefix(s, str(a[1])), true
		}
		r := ropeOf(a[0])
		if len(r.P) > 0 && !r.P[0].Opq && len(r.P[0].S) >= len(str(a[1])) {
			return strings.HasPrefix(r.P[0].S, str(a[1])), true
		}
		unsupported("strings.HasPrefix on an opaque prefix")
	case "math/bits.Len", "math/bits.Len64":
		x, ok := a[0].(int64)
		if !ok {
			unsupported("bits.Len of a symbolic value")
		}
		return int64(bits.Len64(uint64(x))), true
	case "math/bits.Len32":
		x, ok := a[0].(int64)
		if !ok {
			unsupported("bits.Len of a symbolic value")
		}
		return int64(bits.Len32(uint32(x))), true
	case "reflect.ValueOf":
		v := a[0]
		if i, ok := v.(*Iface); ok {
			v = i.V
		}
		return &ReflectV{V: v}, true
	case "(reflect.Value).Pointer":
		rv := a[0].(*ReflectV)
		switch f := rv.V.(type) {
		case *ssa.Function:
			return e.fnID(f), true
		case *Closure:
			return e.fnID(f.Fn), true
		case Nil:
			return int64(0), true
		}
		unsupported("reflect.Value.Pointer of %T", rv.V)
	case "slices.overlaps":
		// unsafe pointer arithmetic in the standard library: decided on the slice model
		x, ok1 := a[0].(*SliceV)
		y, ok2 := a[1].(*SliceV)
		if !ok1 || !ok2 || x.Len == 0 || y.Len == 0 || x.Arr != y.Arr {
			return false, true
		}
		return x.Off <= y.Off+y.Len-1 && y.Off <= x.Off+x.Len-1, true
	case "slices.startIdx":
		x, ok1 := a[0].(*SliceV)
		y, ok2 := a[1].(*SliceV)
		if ok1 && ok2 && x.Arr == y.Arr && y.Off >= x.Off && y.Off <= x.Off+x.Cap {
			return y.Off - x.Off, true
		}
		e.goPanic("needle not found")
	case "bytes.NewBuffer", "bytes.NewBufferString":
		return &Ptr{Obj: e.newObj(ropeOf(a[0]))}, true
	case "(*bytes.Buffer).WriteRune", "(*strings.Builder).WriteRune":
		p := bufPtr(a[0])
		r, ok := a[1].(int64)
		if !ok {
			unsupported("WriteRune of a symbolic rune")
		}
		p.Obj.Val = ropeCat(p.Obj.Val.(*Rope), ropeOf(string(rune(r))))
		return Tuple{int64(1), Nil{}}, true
	case "(*bytes.Buffer).Write", "(*bytes.Buffer).WriteString", "(*strings.Builder).Write", "(*strings.Builder).WriteString":
		p := bufPtr(a[0])
		p.Obj.Val = ropeCat(p.Obj.Val.(*Rope), ropeOf(a[1]))
		return Tuple{int64(0), Nil{}}, true
	case "(*bytes.Buffer).WriteByte", "(*strings.Builder).WriteByte":
		p := bufPtr(a[0])
		r, ok := a[1].(int64)
		if !ok {
			unsupported("WriteByte of a symbolic byte")
		}
		p.Obj.Val = ropeCat(p.Obj.Val.(*Rope), ropeOf(string([]byte{byte(r)})))
		return Nil{}, true
	case "(*bytes.Buffer).Bytes", "(*bytes.Buffer).String", "(*strings.Builder).String":
		p := bufPtr(a[0])
		return ropeVal(p.Obj.Val.(*Rope)), true
	case "(*bytes.Buffer).Grow", "(*strings.Builder).Grow":
		bufPtr(a[0])
		return nil, true
	case "(*bytes.Buffer).Reset", "(*strings.Builder).Reset":
		bufPtr(a[0]).Obj.Val = &Rope{}
		return nil, true
	case "encoding/json.Marshal":
		return e.jsonMarshal(a[0]), true
	case "encoding/json.Unmarshal":
		return e.jsonUnmarshal(a[0], a[1]), true
	case "bytes.Index":
		return e.bytesIndex(a[0], a[1]), true
	case "strconv.Itoa", "strconv.FormatInt":
		if x, ok := a[0].(int64); ok && name == "strconv.Itoa" {
			return e.sprintfConcreteInt(x), true
		}
		return ropeVal(&Rope{P: []Piece{{Opq: true, What: "fmt", Args: []Value{a[0]}}}}), true
	}
	return nil, false
}

func (e *Engine) sprintfConcreteInt(x int64) string {
	neg := x < 0
	if x == 0 {
		return "0"
	}
	var b []byte
	u := uint64(x)
	if neg {
		u = uint64(-x)
	}
	for u > 0 {
		b = append([]byte{byte('0' + u%10)}, b...)
		u /= 10
	}
	if neg {
		b = append([]byte{'-'}, b...)
	}
	return string(b)
}

// bufPtr: a bytes.Buffer is modelled as an object holding a rope; the zero Buffer is the empty rope.
func bufPtr(v Value) *Ptr {
	p, ok := v.(*Ptr)
	if !ok || len(p.Path) != 0 {
		unsupported("bytes.Buffer embedded in another object")
	}
	if _, isRope := p.Obj.Val.(*Rope); !isRope {
		if !isZeroVal(p.Obj.Val) {
			unsupported("buffer initialised outside the modelled constructors")
		}
		p.Obj.Val = &Rope{}
	}
	return p
}

var fnIDs = map[*ssa.Function]int64{}

func (e *Engine) fnID(f *ssa.Function) int64 {
	// closures of one function share a code pointer in the Go runtime as well
	return int64(f.Pos()) + 1<<20
}

func isZeroVal(v Value) bool {
	switch x := v.(type) {
	case nil, Nil:
		return true
	case int64:
		return x == 0
	case bool:
		return !x
	case string:
		return x == ""
	case float64:
		return x == 0
	case *StructV:
		for _, f := range x.F {
			if !isZeroVal(f) {
				return false
			}
		}
		return true
	}
	return false
}
