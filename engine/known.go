package main

import (
	"encoding/json"
	"fmt"
	"os"
	"regexp"
	"strings"
)

// KnownFinding delimits one recorded genuine defect: harness + kind + site + an input class (When).
// A failure is reported as KNOWN-FINDING only when the solver shows that *no* input outside When
// produces it on that path; otherwise the input outside When is reported as a violation.
type KnownFinding struct {
	Property string `json:"property"`
	Harness  string `json:"harness"` // regexp on "<pkg>.<harness>"
	Kind     string `json:"kind"`
	Site     string `json:"site"`  // regexp on the library function
	Label    string `json:"label"` // regexp on the assertion label / panic text
	When     string `json:"when"`  // SMT-LIB Bool over $tag (root-scope nondet, first use) and %cfg
	What     string `json:"what"`
}

type knownFile struct {
	Findings []KnownFinding `json:"findings"`
	Fixed    []string       `json:"fixed"`
}

func loadKnown(path string) ([]KnownFinding, error) {
	b, err := os.ReadFile(path)
	if err != nil {
		if os.IsNotExist(err) {
			return nil, nil
		}
		return nil, err
	}
	var kf knownFile
	if err := json.Unmarshal(b, &kf); err != nil {
		return nil, fmt.Errorf("%s: %v", path, err)
	}
	return kf.Findings, nil
}

func reMatch(pat, s string) bool {
	if pat == "" {
		return true
	}
	ok, err := regexp.MatchString(pat, s)
	return err == nil && ok
}

func (k *KnownFinding) matches(f *Failure) bool {
	return k.Property == f.Prop && k.Kind == f.Kind && reMatch(k.Harness, f.Pkg+"."+f.Harn) && reMatch(k.Site, f.Site) && reMatch(k.Label, f.Label)
}

var whenVar = regexp.MustCompile(`[$%][A-Za-z_][A-Za-z0-9_]*(\.[0-9]+)?`)

// knownClass is the disjunction of the input classes of every recorded finding that matches f and whose variables
// are all bound on the current path ("" if none).
func (e *Engine) knownClass(f *Failure) (string, string) {
	var ws []string
	what := ""
	for i := range e.known {
		k := &e.known[i]
		if !k.matches(f) {
			continue
		}
		if w, ok := k.instantiate(e); ok {
			ws = append(ws, w)
			if what == "" {
				what = k.What
			}
		}
	}
	switch len(ws) {
	case 0:
		return "", ""
	case 1:
		return ws[0], what
	}
	return "(or " + strings.Join(ws, " ") + ")", what
}

// instantiate turns When into a solver term for the current path; false if a variable is not bound here.
func (k *KnownFinding) instantiate(e *Engine) (string, bool) {
	if strings.TrimSpace(k.When) == "" {
		return "true", true
	}
	ok := true
	s := whenVar.ReplaceAllStringFunc(k.When, func(v string) string {
		if v[0] == '%' {
			c, has := e.spec.Cfg[v[1:]]
			if !has {
				ok = false
				return "0"
			}
			return lit(c)
		}
		tag, idx := v[1:], "1"
		if i := strings.Index(tag, "."); i > 0 {
			tag, idx = tag[:i], tag[i+1:]
		}
		n := "r/" + tag + "@" + idx
		for _, d := range e.declared {
			if d == n {
				return n
			}
		}
		ok = false
		return "0"
	})
	return s, ok
}
