package main

import (
	"fmt"
	"runtime/debug"
	"os"
	"strconv"
	"go/token"
	"sort"
	"strings"

	"golang.org/x/tools/go/ssa"
)

// Failure is one violated obligation on one feasible path, with a model of the path condition.
type Failure struct {
	Kind   string            `json:"kind"` // assert | panic | unwind | output | write
	Label  string            `json:"label"`
	Site   string            `json:"site"`
	Model  map[string]string `json:"model"`
	Dec    string            `json:"decisions"`
	Cond   string            `json:"-"`
	Names  []string          `json:"-"`
	Cfg    map[string]int64  `json:"cfg"`
	Harn   string            `json:"harness"`
	Pkg    string            `json:"pkg"`
	Prop   string            `json:"property"`
	Known  string            `json:"known,omitempty"`
	UF     map[string][][3]string `json:"uf,omitempty"`
	Replay string            `json:"replay,omitempty"`
	Native string            `json:"native,omitempty"`
}

type Engine struct {
	prog   *ssa.Program
	solver *Solver
	spec   *RunSpec

	// per path
	dec       []bool
	pos       int
	alts      [][]bool
	nobj      int
	scope     string
	scopeCnt  map[string]int
	declared  []string
	ndefs     int
	ticks     map[string]int
	fails     []Failure
	covers    map[string]bool
	steps     int
	depth     int
	readonly  bool
	watermark int
	forcing   int
	thunks    []*Thunk
	observes  []string
	ufs       map[string]bool
	ufApps    []ufApp
	failSeq   int
	pending   []pendingAssert
	implied   map[string]bool
	tracking  bool
	changed   Value // disjunction of "this tracked store changed a value"
	realSeq   int // > 0: realisation run for the failure with this ordinal
	obsVals   []obs
	complete  bool // completion mode: never queue alternatives
	globals   map[*ssa.Global]*Object
	inited    map[*ssa.Package]bool
	curFn     []*ssa.Function
	outputs   int
	known     []KnownFinding

	// accumulated over paths
	funcs   map[string]bool
	asserts int
	assertQ int
	nbranch int
}

const maxSteps = 4_000_000
const maxDepth = 400
const maxDecisions = 4000

func (e *Engine) site() string {
	for i := len(e.curFn) - 1; i >= 0; i-- {
		f := e.curFn[i]
		if !isHarnessFn(f) {
			return shortFn(f)
		}
	}
	if len(e.curFn) > 0 {
		return shortFn(e.curFn[len(e.curFn)-1])
	}
	return "?"
}

func isHarnessFn(f *ssa.Function) bool {
	for p := f; p != nil; p = p.Parent() {
		n := p.Name()
		if o := p.Origin(); o != nil {
			n = o.Name()
		}
		if strings.HasPrefix(n, "VH") || strings.HasPrefix(n, "vh") || strings.HasPrefix(n, "VG") || strings.HasPrefix(n, "vg") {
			return true
		}
	}
	pos := f.Pos()
	if o := f.Origin(); o != nil && !pos.IsValid() {
		pos = o.Pos()
	}
	for p := f; !pos.IsValid() && p != nil; p = p.Parent() {
		pos = p.Pos()
	}
	if pos.IsValid() && f.Prog != nil {
		fn := f.Prog.Fset.Position(pos).Filename
		if strings.Contains(fn, "/zz_") || strings.Contains(fn, "/zzvsup/") || strings.Contains(fn, "/zzvlib/") {
			return true
		}
	}
	return false
}

func shortFn(f *ssa.Function) string {
	s := f.String()
	s = strings.ReplaceAll(s, "github.com/emirpasic/gods/v2/", "")
	return s
}

func (e *Engine) name(tag string) string {
	key := e.scope + "/" + tag
	e.scopeCnt[key]++
	return fmt.Sprintf("%s/%s@%d", e.scope, tag, e.scopeCnt[key])
}

func (e *Engine) fresh(tag, sort string) *Term {
	n := e.name(tag)
	e.solver.send("(declare-const " + n + " " + sort + ")")
	e.declared = append(e.declared, n)
	t := &Term{Sort: sort, S: n}
	if sort == "Int" {
		e.solver.send("(assert (and (<= (- 9223372036854775808) " + n + ") (<= " + n + " 9223372036854775807)))")
	}
	return t
}

func (e *Engine) freshIn(tag string, lo, hi int64) Value {
	if lo > hi {
		panic(Infeasible{})
	}
	n := e.name(tag)
	e.solver.send("(declare-const " + n + " Int)")
	e.declared = append(e.declared, n)
	e.solver.send("(assert (and (<= " + lit(lo) + " " + n + ") (<= " + n + " " + lit(hi) + ")))")
	return &Term{Sort: "Int", S: n, HasB: true, Lo: lo, Hi: hi}
}

// mk builds a term, naming it by a definition when the text gets long so terms stay small.
func (e *Engine) mk(sort, s string) *Term {
	t := &Term{Sort: sort, S: s}
	if len(s) > 160 {
		e.ndefs++
		n := fmt.Sprintf("d!%d", e.ndefs)
		e.solver.send("(define-fun " + n + " () " + sort + " " + s + ")")
		t.S = n
	}
	return t
}

func (e *Engine) mkInt(s string, hasB bool, lo, hi int64) *Term {
	t := e.mk("Int", s)
	t.HasB, t.Lo, t.Hi = hasB, lo, hi
	return t
}

func (e *Engine) assume(c Value) {
	// Assumptions made by pre-state generators (forcing > 0) only describe which pre-states are valid; a genuine
	// counterexample satisfies them anyway, so the batch is not flushed there (and must not be: completing the
	// pre-state from inside a half-expanded thunk would re-enter its generator).
	if _, sym := c.(*Term); sym && e.forcing == 0 {
		e.flush()
	}
	switch c := c.(type) {
	case bool:
		if !c {
			panic(Infeasible{})
		}
	case *Term:
		e.solver.send("(assert " + c.S + ")")
	default:
		unsupported("assume of %T", c)
	}
}

func decString(d []bool) string {
	var sb strings.Builder
	for _, b := range d {
		if b {
			sb.WriteByte('1')
		} else {
			sb.WriteByte('0')
		}
	}
	return sb.String()
}

// branch decides a condition; symbolic conditions fork (the other feasible side is queued).
func (e *Engine) branch(c Value) bool {
	switch c := c.(type) {
	case bool:
		return c
	case *Term:
		// a condition already decided on this path stays decided (the path condition only grows)
		if d, ok := e.implied[c.S]; ok {
			return d
		}
		if e.pos < len(e.dec) {
			d := e.dec[e.pos]
			e.pos++
			if d {
				e.solver.send("(assert " + c.S + ")")
			} else {
				e.solver.send("(assert (not " + c.S + "))")
			}
			e.implied[c.S] = d
			return d
		}
		if len(e.dec) >= maxDecisions {
			e.fail("unwind", "more than "+fmt.Sprint(maxDecisions)+" symbolic decisions on one path", "")
			panic(Infeasible{})
		}
		e.nbranch++
		ft := e.solver.check(c.S)
		ff := e.solver.check("(not " + c.S + ")")
		switch {
		case ft && ff:
			alt := append(append(make([]bool, 0, len(e.dec)+1), e.dec...), false)
			e.alts = append(e.alts, alt)
			e.dec = append(e.dec, true)
			e.pos++
			e.solver.send("(assert " + c.S + ")")
			e.implied[c.S] = true
			return true
		case ft:
			e.dec = append(e.dec, true)
			e.pos++
			e.implied[c.S] = true
			return true
		case ff:
			e.dec = append(e.dec, false)
			e.pos++
			e.implied[c.S] = false
			return false
		}
		panic(Infeasible{})
	}
	unsupported("branch on %T", c)
	return false
}

// split case-splits an integer term over [lo,hi] and returns the concrete value on this path.
func (e *Engine) split(x Value, lo, hi int64) int64 {
	switch v := x.(type) {
	case int64:
		return v
	case *Term:
		if v.HasB {
			if v.Lo > lo {
				lo = v.Lo
			}
			if v.Hi < hi {
				hi = v.Hi
			}
		}
		if hi-lo > 1024 {
			unsupported("split over a range of %d values", hi-lo+1)
		}
		for c := lo; c < hi; c++ {
			if e.branch(e.mk("Bool", "(= "+v.S+" "+lit(c)+")")) {
				return c
			}
		}
		if lo <= hi {
			e.assume(e.mk("Bool", "(= "+v.S+" "+lit(hi)+")"))
			if !e.solver.check("") {
				panic(Infeasible{})
			}
			return hi
		}
		panic(Infeasible{})
	}
	unsupported("split of %T", x)
	return 0
}

func (e *Engine) wantLabel(label string) (string, bool) {
	// "C01,C07:name" restricts an assertion to the named properties
	if i := strings.Index(label, ":"); i > 0 && label[0] == 'C' && e.spec.Property != "C00" {
		if strings.HasPrefix(label[i+1:], "inv-") {
			return label, true // representation invariants are the induction hypothesis of every property
		}
		for _, p := range strings.Split(label[:i], ",") {
			if p == e.spec.Property {
				return label, true
			}
		}
		return label, false
	}
	return label, true
}


type stopPath struct{}

// atom returns a short solver-side name for a scalar value (so get-value output stays on one line).
func (e *Engine) atom(v Value) string {
	switch x := v.(type) {
	case int64, bool:
		return lit(x)
	case *Term:
		if len(x.S) <= 40 && !strings.ContainsAny(x.S, "( ") {
			return x.S
		}
		e.ndefs++
		n := fmt.Sprintf("a!%d", e.ndefs)
		e.solver.send("(define-fun " + n + " () " + x.Sort + " " + x.S + ")")
		return n
	}
	unsupported("atom of %T", v)
	return ""
}

// model asks for a model of the path condition (plus extra) over inputs, UF applications and observations.
func (e *Engine) model(extra string) (bool, map[string]string) {
	names := append([]string{}, e.declared...)
	for _, u := range e.ufApps {
		names = append(names, u.an, u.bn, u.rn)
	}
	for _, o := range e.obsVals {
		names = append(names, o.n)
	}
	var uniq []string
	seen := map[string]bool{}
	for _, n := range names {
		if !seen[n] && !isLiteral(n) {
			seen[n] = true
			uniq = append(uniq, n)
		}
	}
	ok, m := e.solver.checkModel(extra, uniq)
	if !ok {
		return false, nil
	}
	for _, n := range names {
		if isLiteral(n) {
			m[n] = cleanLit(n)
		}
	}
	return true, m
}

func isLiteral(n string) bool {
	return n == "true" || n == "false" || (len(n) > 0 && (n[0] == '(' || (n[0] >= '0' && n[0] <= '9')))
}
func cleanLit(n string) string {
	n = strings.ReplaceAll(n, "(- ", "-")
	return strings.ReplaceAll(n, ")", "")
}

func (e *Engine) newFailure(kind, label, site string) Failure {
	return Failure{Kind: kind, Label: label, Site: site, Dec: decString(e.dec[:e.pos]),
		Cfg: e.spec.Cfg, Harn: e.spec.Harness, Pkg: e.spec.Pkg, Prop: e.spec.Property}
}

// fail records a failed obligation; negCond, if non-empty, is the negation of the violated condition.
// A failure outside every known finding ends the path: the remaining thunks are completed so that the
// model describes one concrete pre-state that can be replayed natively.
func (e *Engine) fail(kind, label, negCond string) {
	e.failAt(kind, label, e.site(), negCond)
}

type needRealise struct {
	f    Failure
	cond string
	seq  int
}
type realised struct{ model map[string]string }

func (e *Engine) failAt(kind, label, site, negCond string) {
	// output events matter to C17 only
	if kind == "output" && e.spec.Property != "C17" && e.spec.Property != "C00" {
		return
	}
	e.failSeq++
	if os.Getenv("GOSYM_DEBUG") != "" {
		fmt.Fprintf(os.Stderr, "failAt #%d (real %d) %s %q at %s pos=%d/%d\n", e.failSeq, e.realSeq, kind, label, site, e.pos, len(e.dec))
	}
	if !e.solver.check(negCond) {
		return
	}
	f := e.newFailure(kind, label, site)
	cond := negCond
	if when, what := e.knownClass(&f); when != "" {
		nc := "(not " + when + ")"
		if negCond != "" {
			nc = "(and " + negCond + " " + nc + ")"
		}
		if !e.solver.check(nc) {
			f.Known = what
			_, f.Model = e.model(negCond)
			e.fails = append(e.fails, f)
			return // entirely inside the known input classes: keep exploring this path
		}
		cond = nc
	}
	if e.realSeq == 0 {
		// first sight: the path is re-run in realisation mode (runPath) to obtain one fully concrete pre-state
		panic(needRealise{f: f, cond: cond, seq: e.failSeq})
	}
	if e.failSeq != e.realSeq {
		unsupported("realisation run diverged from the failing path (failure %d, expected %d)", e.failSeq, e.realSeq)
	}
	if cond != "" {
		e.solver.send("(assert " + cond + ")")
	}
	e.completeThunks() // may die with Infeasible: the caller backtracks over the completion choices
	ok, m := e.model("")
	if !ok {
		panic(Infeasible{})
	}
	panic(realised{model: m})
}

func (e *Engine) ufTable(m map[string]string) map[string][][3]string {
	if len(e.ufApps) == 0 || m == nil {
		return nil
	}
	t := map[string][][3]string{}
	for _, u := range e.ufApps {
		t[u.id] = append(t[u.id], [3]string{m[u.an], m[u.bn], m[u.rn]})
	}
	return t
}

var batchMax = func() int {
	if n, err := strconv.Atoi(os.Getenv("GOSYM_BATCH")); err == nil && n > 0 {
		return n
	}
	return 64
}()

type pendingAssert struct {
	cond  string
	label string
	site  string
}

func (e *Engine) assert(c Value, label string) {
	label, want := e.wantLabel(label)
	if !want {
		return
	}
	e.asserts++
	switch c := c.(type) {
	case bool:
		if !c {
			e.flush()
			e.fail("assert", label, "")
		}
	case *Term:
		// Symbolic obligations are batched: one query per flush decides the whole batch in the common case that
		// all hold. Sound because the path condition only grows by branch decisions (a model violating an earlier
		// obligation follows exactly one branch sequence, on which it is still a model at the flush) and the batch
		// is flushed before every assumption and at the end of the path.
		e.pending = append(e.pending, pendingAssert{cond: c.S, label: label, site: e.site()})
		if len(e.pending) >= batchMax {
			e.flush()
		}
	default:
		unsupported("assert of %T", c)
	}
}

// flush decides the pending obligations.
func (e *Engine) flush() {
	for len(e.pending) > 0 {
		var sb strings.Builder
		if len(e.pending) == 1 {
			sb.WriteString("(not " + e.pending[0].cond + ")")
		} else {
			sb.WriteString("(or")
			for _, p := range e.pending {
				sb.WriteString(" (not " + p.cond + ")")
			}
			sb.WriteString(")")
		}
		e.assertQ++
		if !e.solver.check(sb.String()) {
			e.pending = e.pending[:0]
			return
		}
		// some obligation fails: the first one in program order is reported
		idx := -1
		for i, p := range e.pending {
			if len(e.pending) == 1 || e.solver.check("(not "+p.cond+")") {
				idx = i
				break
			}
			e.assertQ++
		}
		if idx < 0 {
			panic(solverError{"batched obligations satisfiable together but none alone"})
		}
		p := e.pending[idx]
		rest := append([]pendingAssert{}, e.pending[idx+1:]...)
		// the obligations before idx hold on this path
		e.pending = e.pending[:0]
		e.failAt("assert", p.label, p.site, "(not "+p.cond+")")
		// known finding: continue under the assumption that the obligation held
		e.solver.send("(assert " + p.cond + ")")
		if !e.solver.check("") {
			panic(Infeasible{})
		}
		e.pending = rest
	}
}

func (e *Engine) goPanic(msg string) {
	if os.Getenv("GOSYM_DEBUG") == "2" {
		fmt.Fprintf(os.Stderr, "goPanic %q complete=%v forcing=%d\n", msg, e.complete, e.forcing)
		debug.PrintStack()
	}
	panic(PanicEvt{Msg: msg, Site: e.site()})
}

// ---- terms ----

func (e *Engine) boolOr(a, b Value) Value {
	if c, ok := a.(bool); ok {
		if c {
			return true
		}
		return b
	}
	if c, ok := b.(bool); ok {
		if c {
			return true
		}
		return a
	}
	return e.mk("Bool", "(or "+lit(a)+" "+lit(b)+")")
}
func (e *Engine) boolAnd(a, b Value) Value {
	if c, ok := a.(bool); ok {
		if !c {
			return false
		}
		return b
	}
	if c, ok := b.(bool); ok {
		if !c {
			return false
		}
		return a
	}
	return e.mk("Bool", "(and "+lit(a)+" "+lit(b)+")")
}
func (e *Engine) boolNot(a Value) Value {
	if c, ok := a.(bool); ok {
		return !c
	}
	return e.mk("Bool", "(not "+lit(a)+")")
}

func (e *Engine) ite(c, a, b Value) Value {
	if cc, ok := c.(bool); ok {
		if cc {
			return a
		}
		return b
	}
	if !isScalar(a) || !isScalar(b) {
		// structural ite only over identical values
		if a == b {
			return a
		}
		if e.branch(c) {
			return a
		}
		return b
	}
	if sortOf(a) != sortOf(b) {
		unsupported("ite over different sorts")
	}
	if ta, ok := a.(*Term); ok {
		if tb, ok := b.(*Term); ok && ta.S == tb.S {
			return a
		}
	}
	if ia, ok := a.(int64); ok {
		if ib, ok := b.(int64); ok && ia == ib {
			return a
		}
	}
	t := e.mk(sortOf(a), "(ite "+lit(c)+" "+lit(a)+" "+lit(b)+")")
	if t.Sort == "Int" {
		la, ha, oa := bounds(a)
		lb, hb, ob := bounds(b)
		if oa && ob {
			t.HasB = true
			t.Lo, t.Hi = min64(la, lb), max64(ha, hb)
		}
	}
	return t
}

func bounds(v Value) (int64, int64, bool) {
	switch x := v.(type) {
	case int64:
		return x, x, true
	case *Term:
		return x.Lo, x.Hi, x.HasB
	}
	return 0, 0, false
}
func min64(a, b int64) int64 {
	if a < b {
		return a
	}
	return b
}
func max64(a, b int64) int64 {
	if a > b {
		return a
	}
	return b
}

func (e *Engine) eqVals(x, y Value) Value {
	return e.binop(token.EQL, x, y, nil)
}

func sortedKeys(m map[string]bool) []string {
	var r []string
	for k := range m {
		r = append(r, k)
	}
	sort.Strings(r)
	return r
}
