package main

import (
	"bytes"
	"context"
	"encoding/json"
	"fmt"
	"os"
	"os/exec"
	"path/filepath"
	"sort"
	"strconv"
	"strings"
	"time"
)

// ReplayCase is what a replay file holds: one harness run with every nondeterministic choice fixed.
type ReplayCase struct {
	Property  string                 `json:"property"`
	Pkg       string                 `json:"pkg"`
	Harness   string                 `json:"harness"`
	Cfg       map[string]int64       `json:"cfg"`
	Nondet    map[string]string      `json:"nondet"`
	UF        map[string][][3]string `json:"uf,omitempty"`
	Expect    *Expect                `json:"expect,omitempty"`
	Decisions string                 `json:"decisions,omitempty"`
	Observes  []string               `json:"observes,omitempty"`
}

type Expect struct {
	Kind  string `json:"kind"`
	Label string `json:"label"`
	Site  string `json:"site"`
}

type NativeOutcome struct {
	Outcome  string
	OutBytes int
	Obs      []string
}

// harnessFiles maps virtual paths under repo to the real harness files under verif.
func harnessFiles(repo, verif string, native bool) (map[string]string, error) {
	m := map[string]string{}
	root := filepath.Join(verif, "harness")
	err := filepath.Walk(root, func(p string, info os.FileInfo, err error) error {
		if err != nil {
			return err
		}
		if info.IsDir() || !strings.HasSuffix(p, ".go") {
			return nil
		}
		rel, _ := filepath.Rel(root, p)
		dir := filepath.Dir(rel)
		switch {
		case dir == "zzvsup":
			if !native {
				m[filepath.Join(repo, rel)] = p
			}
		case dir == "zzvsup_native":
			if native {
				m[filepath.Join(repo, "zzvsup", filepath.Base(p))] = p
			}
		default:
			m[filepath.Join(repo, rel)] = p
		}
		return nil
	})
	return m, err
}

func goEnv() []string {
	env := os.Environ()
	env = append(env, "GOFLAGS=-mod=mod", "GOPROXY=off", "GOSUMDB=off", "GOTOOLCHAIN=local")
	return env
}

// runNative replays cases of one package against the real build (go test -overlay) and returns one outcome per case.
func runNative(repo, verif, pkg, pkgName string, harnesses []string, cases []ReplayCase, timeout time.Duration) ([]NativeOutcome, string, error) {
	tmp, err := os.MkdirTemp("", "gosym-replay-")
	if err != nil {
		return nil, "", err
	}
	defer os.RemoveAll(tmp)
	files, err := harnessFiles(repo, verif, true)
	if err != nil {
		return nil, "", err
	}
	cb, _ := json.Marshal(cases)
	casePath := filepath.Join(tmp, "cases.json")
	os.WriteFile(casePath, cb, 0644)
	var tb strings.Builder
	fmt.Fprintf(&tb, "package %s\n\nimport (\n\t\"os\"\n\t\"testing\"\n\n\tv \"github.com/emirpasic/gods/v2/zzvsup\"\n)\n\n", pkgName)
	tb.WriteString("func TestVReplay(t *testing.T) {\n\tv.RunReplay(os.Getenv(\"VERIF_REPLAY\"), map[string]func(){\n")
	sort.Strings(harnesses)
	for _, h := range harnesses {
		fmt.Fprintf(&tb, "\t\t%q: %s,\n", h, h)
	}
	tb.WriteString("\t})\n}\n")
	testPath := filepath.Join(tmp, "zz_replay_test.go")
	os.WriteFile(testPath, []byte(tb.String()), 0644)
	files[filepath.Join(repo, pkg, "zz_replay_test.go")] = testPath
	ov, _ := json.Marshal(map[string]interface{}{"Replace": files})
	ovPath := filepath.Join(tmp, "overlay.json")
	os.WriteFile(ovPath, ov, 0644)

	ctx, cancel := context.WithTimeout(context.Background(), timeout+60*time.Second)
	defer cancel()
	cmd := exec.CommandContext(ctx, "go", "test", "-v", "-vet=off", "-count=1", "-overlay", ovPath, "-run", "^TestVReplay$",
		"-timeout", fmt.Sprintf("%ds", int(timeout.Seconds())), "./"+pkg)
	cmd.Dir = repo
	cmd.Env = append(goEnv(), "VERIF_REPLAY="+casePath)
	var out bytes.Buffer
	cmd.Stdout = &out
	cmd.Stderr = &out
	runErr := cmd.Run()
	res := make([]NativeOutcome, len(cases))
	seen := 0
	for _, l := range strings.Split(out.String(), "\n") {
		f := strings.SplitN(l, " ", 3)
		if len(f) < 2 {
			continue
		}
		i, err := strconv.Atoi(f[1])
		if err != nil || i < 0 || i >= len(res) {
			continue
		}
		rest := ""
		if len(f) == 3 {
			rest = f[2]
		}
		switch f[0] {
		case "VCASE":
			res[i].Outcome = rest
			seen++
		case "VOUT":
			res[i].OutBytes, _ = strconv.Atoi(rest)
		case "VOBS":
			if rest != "" {
				res[i].Obs = strings.Fields(rest)
			}
		}
	}
	if seen < len(cases) {
		// the test binary died (timeout, fatal error) or did not build
		for i := range res {
			if res[i].Outcome == "" {
				if strings.Contains(out.String(), "test timed out") {
					res[i].Outcome = "TIMEOUT"
				} else {
					res[i].Outcome = "NORESULT"
				}
			}
		}
		return res, out.String(), runErr
	}
	return res, out.String(), nil
}

// reproduced decides whether the native outcome shows the failure the engine predicted.
func reproduced(x *Expect, o NativeOutcome) bool {
	switch x.Kind {
	case "assert":
		// natively the whole pre-state is concrete, so a differently labelled obligation of the same property
		// may trip first (e.g. "...-subtree" obligations become their per-node form)
		return strings.HasPrefix(o.Outcome, "ASSERT ")
	case "panic":
		return strings.HasPrefix(o.Outcome, "PANIC ")
	case "output":
		return o.OutBytes > 0
	case "write":
		// the native fingerprint comparison at EndOp, or an obligation that the same input trips earlier
		return strings.HasPrefix(o.Outcome, "ASSERT ")
	case "unwind":
		return o.Outcome == "TIMEOUT" || strings.Contains(o.Outcome, "stack overflow")
	}
	return false
}

func caseOf(f *Failure) ReplayCase {
	return ReplayCase{Property: f.Prop, Pkg: f.Pkg, Harness: f.Harn, Cfg: f.Cfg, Nondet: f.Model, UF: f.UF,
		Expect: &Expect{Kind: f.Kind, Label: f.Label, Site: f.Site}, Decisions: f.Dec}
}
