package main

import (
	"bufio"
	"fmt"
	"io"
	"os"
	"os/exec"
	"strings"
	"time"
)

// Solver is one SMT solver process driven over a pipe (SMT-LIB2, incremental).
type Solver struct {
	cmd     *exec.Cmd
	in      *bufio.Writer
	inRaw   io.WriteCloser
	out     *bufio.Reader
	queries int
	dur     time.Duration
	log     *os.File
	kind    string
}

const prelude = `(set-option :print-success false)
(define-fun wrap ((x Int)) Int (ite (> x 9223372036854775807) (- x 18446744073709551616) (ite (< x (- 9223372036854775808)) (+ x 18446744073709551616) x)))
(define-fun wrapm ((x Int)) Int (- (mod (+ x 9223372036854775808) 18446744073709551616) 9223372036854775808))
(define-fun wrap8 ((x Int)) Int (- (mod (+ x 128) 256) 128))
(define-fun tdiv ((x Int) (c Int)) Int (ite (>= x 0) (div x c) (- (div (- x) c))))
(define-fun trem ((x Int) (c Int)) Int (ite (>= x 0) (mod x c) (- (mod (- x) c))))
`

func newSolver(kind string) *Solver {
	var cmd *exec.Cmd
	switch kind {
	case "", "z3":
		kind = "z3"
		cmd = exec.Command("z3", "-in")
	case "z3-new":
		cmd = exec.Command("z3-new", "-in")
	case "cvc5":
		cmd = exec.Command("cvc5", "--incremental", "--lang=smt2", "--produce-models")
	default:
		panic("unknown solver " + kind)
	}
	in, _ := cmd.StdinPipe()
	out, _ := cmd.StdoutPipe()
	cmd.Stderr = os.Stderr
	if err := cmd.Start(); err != nil {
		panic(err)
	}
	s := &Solver{cmd: cmd, inRaw: in, in: bufio.NewWriterSize(in, 1<<16), out: bufio.NewReaderSize(out, 1<<16), kind: kind}
	if p := os.Getenv("GOSYM_SMTLOG"); p != "" {
		s.log, _ = os.OpenFile(fmt.Sprintf("%s.%d", p, cmd.Process.Pid), os.O_CREATE|os.O_WRONLY|os.O_TRUNC, 0644)
	}
	if kind == "cvc5" {
		s.send("(set-logic ALL)")
	}
	s.send("(set-option :produce-models true)")
	for _, l := range strings.Split(prelude, "\n") {
		if l != "" {
			s.send(l)
		}
	}
	return s
}

func (s *Solver) close() {
	s.in.Flush()
	s.inRaw.Close()
	s.cmd.Process.Kill()
	s.cmd.Wait()
	if s.log != nil {
		s.log.Close()
	}
}

func (s *Solver) send(l string) {
	if s.log != nil {
		fmt.Fprintln(s.log, l)
	}
	s.in.WriteString(l)
	s.in.WriteByte('\n')
}

type solverError struct{ msg string }

func (s *Solver) readLine() string {
	s.in.Flush()
	line, err := s.out.ReadString('\n')
	if err != nil {
		panic(solverError{"solver pipe: " + err.Error()})
	}
	line = strings.TrimSpace(line)
	if strings.HasPrefix(line, "(error") {
		panic(solverError{"solver error: " + line})
	}
	return line
}

// check asks whether the current assertion stack (plus extra, if any) is satisfiable.
func (s *Solver) check(extra string) bool {
	s.queries++
	t := time.Now()
	if extra != "" {
		s.send("(push 1)")
		s.send("(assert " + extra + ")")
	}
	s.send("(check-sat)")
	line := s.readLine()
	if extra != "" {
		s.send("(pop 1)")
	}
	s.dur += time.Since(t)
	switch line {
	case "sat":
		return true
	case "unsat":
		return false
	}
	panic(solverError{"solver said: " + line})
}

// checkModel is like check but, when sat, reads the values of the given constants before popping.
func (s *Solver) checkModel(extra string, names []string) (bool, map[string]string) {
	s.queries++
	t := time.Now()
	defer func() { s.dur += time.Since(t) }()
	s.send("(push 1)")
	if extra != "" {
		s.send("(assert " + extra + ")")
	}
	s.send("(check-sat)")
	line := s.readLine()
	if line != "sat" {
		s.send("(pop 1)")
		if line == "unsat" {
			return false, nil
		}
		panic(solverError{"solver said: " + line})
	}
	m := map[string]string{}
	for _, n := range names {
		s.send("(get-value (" + n + "))")
		l := s.readLine()
		// ((name value))  -- value may be (- 5)
		l = strings.TrimSpace(l)
		l = strings.TrimPrefix(l, "((")
		l = strings.TrimSuffix(l, "))")
		l = strings.TrimSpace(strings.TrimPrefix(l, n))
		l = strings.ReplaceAll(l, "(- ", "-")
		l = strings.ReplaceAll(l, ")", "")
		l = strings.ReplaceAll(l, " ", "")
		m[n] = l
	}
	s.send("(pop 1)")
	return true, m
}
