package circularbuffer

import (
	vl "github.com/emirpasic/gods/v2/zzvlib"
	"encoding/json"
	"github.com/emirpasic/gods/v2/containers"
	v "github.com/emirpasic/gods/v2/zzvsup"
)

// VGQueue is an arbitrary ring of capacity c (configuration) satisfying the representation invariant:
// len(values) = cap = c, 0 <= start,end < c, full => start = end, size = calculateSize().
// start, end and full stay symbolic: one path set covers every wrap-around position.
func VGQueue() (*Queue[int], []int) {
	c := v.Cfg("c")
	q := &Queue[int]{maxSize: c, values: make([]int, c)}
	for i := 0; i < c; i++ {
		q.values[i] = v.Int("e")
	}
	q.start = v.IntIn("start", 0, c-1)
	q.end = v.IntIn("end", 0, c-1)
	q.full = v.Bool("full")
	v.Assume(v.Implies(q.full, q.start == q.end))
	size := v.Ite(q.end < q.start, c-q.start+q.end, v.Ite(q.end == q.start, v.Ite(q.full, c, 0), q.end-q.start))
	q.size = size
	n := v.Split(size, 0, c)
	pre := make([]int, n)
	for i := 0; i < n; i++ {
		pre[i] = q.values[(q.start+i)%c]
	}
	return q, pre
}

func VInv(q *Queue[int]) {
	c := q.maxSize
	v.Assert(c == v.CfgOr("c", c), "C15:inv-capacity-kept")
	v.Assert(len(q.values) == c, "inv-len")
	v.Assert(v.And(q.start >= 0, q.start < c), "inv-start")
	v.Assert(v.And(q.end >= 0, q.end < c), "inv-end")
	v.Assert(v.Implies(q.full, q.start == q.end), "inv-full")
	v.Assert(q.size == q.calculateSize(), "inv-size")
}

func VHRingStep() {
	q, pre := VGQueue()
	containers.VLinStep(containers.VLin{Name: "CircularBuffer", C: q, Push: q.Enqueue, Pop: q.Dequeue, Peek: q.Peek, Cap: q.maxSize, Full: q.Full,
		Inv: func() { VInv(q) }}, pre)
}

// VHRingNew: the constructor panics exactly when the capacity is below 1 and otherwise yields an empty ring.
func VHRingNew() {
	c := v.IntIn("c", -2, v.CfgOr("C", 4))
	var q *Queue[int]
	panicked := v.ExpectPanic(func() { q = New[int](v.Split(c, -2, 8)) })
	v.Assert(panicked == (c < 1), "C17:new-panics-iff-capacity-below-1")
	if !panicked {
		VInv(q)
		v.Assert(q.Size() == 0, "C05:new-empty")
		v.Assert(q.Empty(), "C15:new-empty")
		v.Assert(!q.Full(), "C05:new-not-full")
		v.Assert(len(q.Values()) == 0, "C15:new-values")
	}
}

func VHIter() {
	q, pre := VGQueue()
	containers.VIterStep(func() containers.IteratorWithIndex[int] { return q.Iterator() }, pre, q)
}

// VHSnap: returned slices are snapshots, argument slices are copied, GetSortedValues leaves the container alone (C16).
func VHSnap() {
	c, _ := VGQueue()
	containers.VSnapStep(containers.VSnap{C: c, Mutate: []func(){c.Clear, func() { c.Enqueue(v.Int("m")) }, func() { c.Dequeue() }}})
}

var _ = vl.Less

func vJSON(c *Queue[int]) containers.VJSON {
	return containers.VJSON{C: c, ToJSON: c.ToJSON, FromJSON: c.FromJSON,
		Marshal: func() ([]byte, error) { return json.Marshal(c) },
		Unmarshal: func(data []byte) error { return json.Unmarshal(data, c) },
		Inv:     func() { VInv(c) },
		Step:    func() { x := v.Int("sx"); c.Enqueue(x); v.Assert(c.Size() >= 1, "C12:enqueue-after-load") },
		Fresh:   func() containers.VJSON { return vJSON(New[int](c.maxSize)) },
		Ref: func(ks, xs []int) ([]int, []int) { return nil, vl.LastN(xs, c.maxSize) },
		Drain: func() []int { var out []int; for { x, ok := c.Dequeue(); if !ok { return out }; out = append(out, x) } },
	}
}

// VHJSONRound: ToJSON / json.Marshal / FromJSON round trip from an arbitrary state (C11).
func VHJSONRound() {
	c, _ := VGQueue()
	containers.VJSONRound(vJSON(c))
}

// VHJSONLoad: FromJSON of an arbitrary document into an arbitrary prior state (C12, C17).
func VHJSONLoad() {
	c, _ := VGQueue()
	containers.VJSONLoad(vJSON(c))
}

// VHHistory: D operations in a row from the constructor (see VMapHistory).
func VHHistory() {
	q := New[int](v.Cfg("c"))
	containers.VLinHistory(containers.VLin{Name: "CircularBuffer", C: q, Push: q.Enqueue, Pop: q.Dequeue, Peek: q.Peek, Cap: q.maxSize, Full: q.Full, Inv: func() { VInv(q) }})
}
