package linkedlistqueue

import (
	vl "github.com/emirpasic/gods/v2/zzvlib"
	"encoding/json"
	"github.com/emirpasic/gods/v2/containers"
	"github.com/emirpasic/gods/v2/lists/singlylinkedlist"
	v "github.com/emirpasic/gods/v2/zzvsup"
)

func VGQueue() (*Queue[int], []int) {
	l, vals := singlylinkedlist.VGList()
	return &Queue[int]{list: l}, vals
}

func VHQueueStep() {
	q, pre := VGQueue()
	containers.VLinStep(containers.VLin{Name: "LinkedListQueue", C: q, Push: q.Enqueue, Pop: q.Dequeue, Peek: q.Peek,
		Inv: func() { v.Assert(q.list != nil, "inv-list"); singlylinkedlist.VInv(q.list) }}, pre)
}

func VHIter() {
	q, pre := VGQueue()
	containers.VIterStep(func() containers.IteratorWithIndex[int] { return q.Iterator() }, pre, q)
}

// VHSnap: returned slices are snapshots, argument slices are copied, GetSortedValues leaves the container alone (C16).
func VHSnap() {
	c, _ := VGQueue()
	containers.VSnapStep(containers.VSnap{C: c, Mutate: []func(){c.Clear, func() { c.Enqueue(v.Int("m")) }, func() { c.Dequeue() }}})
}

var _ = vl.Less

func vJSON(c *Queue[int]) containers.VJSON {
	return containers.VJSON{C: c, ToJSON: c.ToJSON, FromJSON: c.FromJSON,
		Marshal: func() ([]byte, error) { return json.Marshal(c) },
		Unmarshal: func(data []byte) error { return json.Unmarshal(data, c) },
		Inv:     func() { v.Assert(c.list != nil, "inv-list"); singlylinkedlist.VInv(c.list) },
		Step:    func() { n := c.Size(); c.Enqueue(v.Int("sx")); v.Assert(c.Size() == n+1, "C12:enqueue-after-load") },
		Fresh:   func() containers.VJSON { return vJSON(New[int]()) },
		Ref: func(ks, xs []int) ([]int, []int) { return nil, xs },
		Drain: func() []int { var out []int; for { x, ok := c.Dequeue(); if !ok { return out }; out = append(out, x) } },
	}
}

// VHJSONRound: ToJSON / json.Marshal / FromJSON round trip from an arbitrary state (C11).
func VHJSONRound() {
	c, _ := VGQueue()
	containers.VJSONRound(vJSON(c))
}

// VHJSONLoad: FromJSON of an arbitrary document into an arbitrary prior state (C12, C17).
func VHJSONLoad() {
	c, _ := VGQueue()
	containers.VJSONLoad(vJSON(c))
}

// VHHistory: D operations in a row from the constructor (see VMapHistory).
func VHHistory() {
	q := New[int]()
	containers.VLinHistory(containers.VLin{Name: "LinkedListQueue", C: q, Push: q.Enqueue, Pop: q.Dequeue, Peek: q.Peek, Inv: func() { singlylinkedlist.VInv(q.list) }})
}
