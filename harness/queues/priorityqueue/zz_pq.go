package priorityqueue

import (
	"encoding/json"
	v "github.com/emirpasic/gods/v2/zzvsup"
	"github.com/emirpasic/gods/v2/containers"
	"github.com/emirpasic/gods/v2/trees/binaryheap"
	vl "github.com/emirpasic/gods/v2/zzvlib"
)

func VGQueue() (*Queue[int], []int) {
	h, pre := binaryheap.VGHeap()
	return &Queue[int]{heap: h, Comparator: vl.Cmp}, pre
}

func VHQueueStep() {
	q, pre := VGQueue()
	binaryheap.VHeapStep(binaryheap.VHeapLike{
		Push: func(xs ...int) {
			for _, x := range xs {
				q.Enqueue(x)
			}
		},
		Pop: q.Dequeue, Peek: q.Peek, Clear: q.Clear, Values: q.Values, Size: q.Size, Empty: q.Empty, String: q.String, Heap: q.heap, Name: "PriorityQueue"}, pre)
}

func VHIter() {
	q, _ := VGQueue()
	seq := q.Values()
	containers.VIterStep(func() containers.IteratorWithIndex[int] { return q.Iterator() }, seq, q)
}

// VHSnap: returned slices are snapshots, argument slices are copied, GetSortedValues leaves the container alone (C16).
func VHSnap() {
	c, _ := VGQueue()
	containers.VSnapStep(containers.VSnap{C: c, Mutate: []func(){c.Clear, func() { c.Enqueue(v.Int("m")) }, func() { c.Dequeue() }}})
}

var _ = vl.Less

func vJSON(c *Queue[int]) containers.VJSON {
	return containers.VJSON{C: c, ToJSON: c.ToJSON, FromJSON: c.FromJSON,
		Marshal: func() ([]byte, error) { return json.Marshal(c) },
		Unmarshal: func(data []byte) error { return json.Unmarshal(data, c) },
		Inv:     func() { binaryheap.VInv(c.heap) },
		Step:    func() { c.Enqueue(v.Int("sx")); binaryheap.VInv(c.heap) },
		Fresh:   func() containers.VJSON { return vJSON(NewWith[int](vl.Cmp)) },
		Multiset: true, Ref: func(ks, xs []int) ([]int, []int) { return nil, xs },
		Drain: func() []int { var out []int; for { x, ok := c.Dequeue(); if !ok { return out }; out = append(out, x) } },
	}
}

// VHJSONRound: ToJSON / json.Marshal / FromJSON round trip from an arbitrary state (C11).
func VHJSONRound() {
	c, _ := VGQueue()
	containers.VJSONRound(vJSON(c))
}

// VHJSONLoad: FromJSON of an arbitrary document into an arbitrary prior state (C12, C17).
func VHJSONLoad() {
	c, _ := VGQueue()
	containers.VJSONLoad(vJSON(c))
}

func VHHistory() {
	q := NewWith[int](vl.Cmp)
	if v.CfgOr("ctor", 0) == 1 { // the default-comparator constructor (cmp.Compare); only meaningful with cmp=0
		q = New[int]()
	}
	binaryheap.VHeapHistory(binaryheap.VHeapLike{
		Push: func(xs ...int) {
			for _, x := range xs {
				q.Enqueue(x)
			}
		},
		Pop: q.Dequeue, Peek: q.Peek, Clear: q.Clear, Values: q.Values, Size: q.Size, Empty: q.Empty, String: q.String, Heap: q.heap, Name: "PriorityQueue"})
}
