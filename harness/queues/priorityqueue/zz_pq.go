package priorityqueue

import (
	v "github.com/emirpasic/gods/v2/zzvsup"
	"github.com/emirpasic/gods/v2/containers"
	"github.com/emirpasic/gods/v2/trees/binaryheap"
	vl "github.com/emirpasic/gods/v2/zzvlib"
)

func VGQueue() (*Queue[int], []int) {
	h, pre := binaryheap.VGHeap()
	return &Queue[int]{heap: h, Comparator: vl.Cmp}, pre
}

func VHQueueStep() {
	q, pre := VGQueue()
	binaryheap.VHeapStep(binaryheap.VHeapLike{
		Push: func(xs ...int) {
			for _, x := range xs {
				q.Enqueue(x)
			}
		},
		Pop: q.Dequeue, Peek: q.Peek, Clear: q.Clear, Values: q.Values, Size: q.Size, Empty: q.Empty, String: q.String, Heap: q.heap}, pre)
}

func VHIter() {
	q, _ := VGQueue()
	seq := q.Values()
	containers.VIterStep(func() containers.IteratorWithIndex[int] { return q.Iterator() }, seq, q)
}

// VHSnap: returned slices are snapshots, argument slices are copied, GetSortedValues leaves the container alone (C16).
func VHSnap() {
	c, _ := VGQueue()
	containers.VSnapStep(containers.VSnap{C: c, Mutate: []func(){c.Clear, func() { c.Enqueue(v.Int("m")) }, func() { c.Dequeue() }}})
}
