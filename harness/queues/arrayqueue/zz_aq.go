package arrayqueue

import (
	"github.com/emirpasic/gods/v2/containers"
	"github.com/emirpasic/gods/v2/lists/arraylist"
	v "github.com/emirpasic/gods/v2/zzvsup"
)

func VGQueue() (*Queue[int], []int) {
	l, vals := arraylist.VGList()
	return &Queue[int]{list: l}, vals
}

func VHQueueStep() {
	q, pre := VGQueue()
	containers.VLinStep(containers.VLin{C: q, Push: q.Enqueue, Pop: q.Dequeue, Peek: q.Peek,
		Inv: func() { v.Assert(q.list != nil, "inv-list") }}, pre)
}

func VHIter() {
	q, pre := VGQueue()
	containers.VIterStep(func() containers.IteratorWithIndex[int] { return q.Iterator() }, pre, q)
}

// VHSnap: returned slices are snapshots, argument slices are copied, GetSortedValues leaves the container alone (C16).
func VHSnap() {
	c, _ := VGQueue()
	containers.VSnapStep(containers.VSnap{C: c, Mutate: []func(){c.Clear, func() { c.Enqueue(v.Int("m")) }, func() { c.Dequeue() }}})
}
