// Package vsup, native replay runtime: same API as the engine-side stub package, but every nondeterministic
// choice is served from a replay table (a solver model) so that the identical harness source runs against
// the real build. Injected with `go test -overlay` as <repo>/zzvsup/vsup.go.
package vsup

import (
	"encoding/json"
	"fmt"
	"io"
	"os"
	"reflect"
	"sort"
	"strconv"
	"strings"
	"time"
)

type Case struct {
	Property string                 `json:"property"`
	Pkg      string                 `json:"pkg"`
	Harness  string                 `json:"harness"`
	Cfg      map[string]int64       `json:"cfg"`
	Nondet   map[string]string      `json:"nondet"`
	UF       map[string][][3]string `json:"uf"`
}

type assertFail struct{ label string }
type diverged struct{ msg string }

var padded int
var lastPadded bool

var (
	cur      *Case
	scope    string
	scopeCnt map[string]int
	ticks    map[string]int
	obsLog   []string
	snap     string
	snapOn   bool
	roots    []any
)

func Symbolic() bool { return false }

func name(tag string) string {
	key := scope + "/" + tag
	scopeCnt[key]++
	return fmt.Sprintf("%s/%s@%d", scope, tag, scopeCnt[key])
}

func next(tag string) (int64, string) {
	n := name(tag)
	s, ok := cur.Nondet[n]
	if !ok {
		// The engine stops a path at its first failing obligation; natively that obligation may only be checkable
		// by what follows (e.g. engine-side reachability vs. the behavioural check after it), so the run continues
		// with zero for choices the engine never made. Any assertion that then fails is a real failure on the
		// real code with concrete inputs; a violated assumption still ends the replay as DIVERGED.
		padded++
		lastPadded = true
		return 0, n
	}
	lastPadded = false
	switch s {
	case "true":
		return 1, n
	case "false":
		return 0, n
	}
	v, err := strconv.ParseInt(s, 10, 64)
	if err != nil {
		panic(diverged{"bad value " + s + " for " + n})
	}
	return v, n
}

func Cfg(name string) int {
	v, ok := cur.Cfg[name]
	if !ok {
		panic(diverged{"no config " + name})
	}
	return int(v)
}
func CfgOr(name string, d int) int {
	if v, ok := cur.Cfg[name]; ok {
		return int(v)
	}
	return d
}
func Int(tag string) int   { v, _ := next(tag); return int(v) }
func Bool(tag string) bool { v, _ := next(tag); return v != 0 }
func IntIn(tag string, lo, hi int) int {
	if lo == hi {
		name(tag)
		return lo
	}
	v, n := next(tag)
	if lastPadded {
		return lo
	}
	if int(v) < lo || int(v) > hi {
		panic(diverged{"value out of range for " + n})
	}
	return int(v)
}
func Assume(c bool) {
	if !c {
		panic(diverged{"assumption false"})
	}
}
func Assert(c bool, label string) {
	if !c && wantLabel(label) {
		panic(assertFail{label})
	}
}

// wantLabel: "C01,C07:name" restricts an assertion to the named properties (same rule as the engine).
func wantLabel(label string) bool {
	i := strings.Index(label, ":")
	if i <= 0 || label[0] != 'C' || cur.Property == "" || cur.Property == "C00" || strings.HasPrefix(label[i+1:], "inv-") {
		return true
	}
	for _, p := range strings.Split(label[:i], ",") {
		if p == cur.Property {
			return true
		}
	}
	return false
}
func Ite(c bool, a, b int) int {
	if c {
		return a
	}
	return b
}
func Or(a, b bool) bool       { return a || b }
func And(a, b bool) bool      { return a && b }
func Implies(a, b bool) bool  { return !a || b }
func Split(x, lo, hi int) int { return x }

func uf(id string, a, b int) (string, bool) {
	as, bs := strconv.Itoa(a), strconv.Itoa(b)
	for _, r := range cur.UF[id] {
		if r[0] == as && r[1] == bs {
			return r[2], true
		}
	}
	return "", false
}
func Pred(id string, a, b int) bool {
	r, ok := uf(id, a, b)
	return ok && r == "true"
}
func Fn(id string, a, b int) int {
	r, ok := uf(id, a, b)
	if !ok {
		return 0
	}
	v, _ := strconv.Atoi(r)
	return v
}
func Tick(counter string)      { ticks[counter]++ }
func Ticks(counter string) int { return ticks[counter] }

func Fresh()             {}
func Cover(label string) {}
func Observe(tag string, x int) {
	obsLog = append(obsLog, tag+"="+strconv.Itoa(x))
}
func Disjoint(a, b any) bool   { return true }
func SameObject(a, b any) bool { return reflect.ValueOf(a).Pointer() == reflect.ValueOf(b).Pointer() }
func Unsupported(why string)   {}
func Concrete(b bool) bool     { return true }

func ExpectPanic(f func()) (p bool) {
	defer func() {
		if r := recover(); r != nil {
			switch r.(type) {
			case assertFail, diverged:
				panic(r)
			}
			p = true
		}
	}()
	f()
	return false
}

// BeginOp(true, roots...) fingerprints everything reachable from roots; EndOp compares.
func BeginOp(readonly bool, rs ...any) {
	snapOn = readonly
	roots = rs
	if readonly {
		snap = fingerprint(rs)
	}
}
func EndOp() {
	if snapOn {
		snapOn = false
		if fingerprint(roots) != snap {
			panic(assertFail{"readonly-write"})
		}
	}
}

func fingerprint(rs []any) string {
	top := &strings.Builder{}
	ids := map[uintptr]int{}
	var walk func(sb *strings.Builder, v reflect.Value, depth int)
	walk = func(sb *strings.Builder, v reflect.Value, depth int) {
		if depth > 10000 {
			return
		}
		switch v.Kind() {
		case reflect.Ptr:
			if v.IsNil() {
				sb.WriteString("nil;")
				return
			}
			p := v.Pointer()
			if id, ok := ids[p]; ok {
				fmt.Fprintf(sb, "^%d;", id)
				return
			}
			ids[p] = len(ids)
			fmt.Fprintf(sb, "&%d{", ids[p])
			walk(sb, v.Elem(), depth+1)
			sb.WriteString("}")
		case reflect.Struct:
			for i := 0; i < v.NumField(); i++ {
				walk(sb, v.Field(i), depth+1)
			}
		case reflect.Slice:
			if v.IsNil() {
				sb.WriteString("nilslice;")
				return
			}
			fmt.Fprintf(sb, "[%d/%d:", v.Len(), v.Cap())
			full := v.Slice(0, v.Cap())
			for i := 0; i < full.Len(); i++ {
				walk(sb, full.Index(i), depth+1)
			}
			sb.WriteString("]")
		case reflect.Array:
			for i := 0; i < v.Len(); i++ {
				walk(sb, v.Index(i), depth+1)
			}
		case reflect.Map:
			if v.IsNil() {
				sb.WriteString("nilmap;")
				return
			}
			var items []string
			it := v.MapRange()
			for it.Next() {
				kb := &strings.Builder{}
				walk(kb, it.Key(), depth+1)
				kb.WriteString("=>")
				walk(kb, it.Value(), depth+1)
				items = append(items, kb.String())
			}
			sort.Strings(items)
			sb.WriteString("map{" + strings.Join(items, ",") + "}")
		case reflect.Interface:
			if v.IsNil() {
				sb.WriteString("nilif;")
				return
			}
			walk(sb, v.Elem(), depth+1)
		case reflect.Func:
			if v.IsNil() {
				sb.WriteString("nilfn;")
			} else {
				sb.WriteString("fn;")
			}
		case reflect.Int, reflect.Int8, reflect.Int16, reflect.Int32, reflect.Int64:
			fmt.Fprintf(sb, "%d;", v.Int())
		case reflect.Uint, reflect.Uint8, reflect.Uint16, reflect.Uint32, reflect.Uint64, reflect.Uintptr:
			fmt.Fprintf(sb, "%d;", v.Uint())
		case reflect.Bool:
			fmt.Fprintf(sb, "%v;", v.Bool())
		case reflect.String:
			fmt.Fprintf(sb, "%q;", v.String())
		case reflect.Float32, reflect.Float64:
			fmt.Fprintf(sb, "%v;", v.Float())
		default:
			fmt.Fprintf(sb, "?%v;", v.Kind())
		}
	}
	for _, r := range rs {
		walk(top, reflect.ValueOf(r), 0)
		top.WriteString("|")
	}
	return top.String()
}

func pushScope() string {
	key := scope + "/.L"
	scopeCnt[key]++
	save := scope
	scope = fmt.Sprintf("%s.L%d", scope, scopeCnt[key])
	return save
}

func Lazy[T, S any](gen func(*S) *T, s *S) *T {
	save := pushScope()
	defer func() { scope = save }()
	return gen(s)
}
func Peek[T, S any](cell **T) *S { return nil }
func LazySlice[E, S any](gen func(*S) []E, s *S) []E {
	save := pushScope()
	defer func() { scope = save }()
	return gen(s)
}
func PeekSlice[E, S any](cell *[]E) *S { return nil }

func JSONDoc(class int, keys, vals []int, bad int) []byte {
	elem := func(i int) string {
		if i == bad {
			return `"x"`
		}
		return strconv.Itoa(vals[i])
	}
	switch class {
	case 0:
		return []byte(`[1,`)
	case 1:
		return []byte(``)
	case 2:
		return []byte(`null`)
	case 3:
		return []byte(`7`)
	case 4:
		var parts []string
		for i := range vals {
			parts = append(parts, elem(i))
		}
		return []byte("[" + strings.Join(parts, ",") + "]")
	case 5:
		var parts []string
		for i := range vals {
			parts = append(parts, `"`+strconv.Itoa(keys[i])+`":`+elem(i))
		}
		return []byte("{" + strings.Join(parts, ",") + "}")
	}
	panic(diverged{"unknown json class"})
}

func StrOf(x int) string {
	if x == 0 {
		return ""
	}
	return fmt.Sprintf("s%014d", x)
}
func IntOf(s string) int {
	if s == "" {
		return 0
	}
	n, err := strconv.Atoi(strings.TrimLeft(s[1:], "0"))
	if err != nil {
		panic(diverged{"IntOf of a string that is not an atom: " + s})
	}
	return n
}
func Str(tag string) string { v, _ := next(tag); return StrOf(int(v)) }

func JSONDocS(class int, keys, vals []string, bad int) []byte {
	elem := func(i int) string {
		if i == bad {
			return `7`
		}
		return strconv.Quote(vals[i])
	}
	switch class {
	case 0:
		return []byte(`[1,`)
	case 1:
		return []byte(``)
	case 2:
		return []byte(`null`)
	case 3:
		return []byte(`7`)
	case 4:
		var parts []string
		for i := range vals {
			parts = append(parts, elem(i))
		}
		return []byte("[" + strings.Join(parts, ",") + "]")
	case 5:
		var parts []string
		for i := range vals {
			parts = append(parts, strconv.Quote(keys[i])+":"+elem(i))
		}
		return []byte("{" + strings.Join(parts, ",") + "}")
	}
	panic(diverged{"unknown json class"})
}

func JSONKind(data []byte) int {
	if !json.Valid(data) {
		return 0
	}
	s := strings.TrimSpace(string(data))
	switch {
	case s == "null":
		return 2
	case strings.HasPrefix(s, "["):
		return 4
	case strings.HasPrefix(s, "{"):
		return 5
	}
	return 3
}

var trackSnap string
var trackRoots []any

func Track(rs ...any) { trackRoots = rs; trackSnap = fingerprint(rs) }
func Changed() bool  { return fingerprint(trackRoots) != trackSnap }

// JSONInput builds concrete bytes for the input class the model chose (see Appendix B of DESIGN.md).
func JSONInput(tag string) []byte {
	n := name(tag)
	get := func(k string) (string, bool) { s, ok := cur.Nondet[n+"."+k]; return s, ok }
	class, ok := get("class")
	if !ok {
		panic(diverged{"no json class for " + n})
	}
	cnt := 0
	if s, ok := get("n"); ok {
		cnt, _ = strconv.Atoi(s)
	}
	bad := -1
	if s, ok := get("bad"); ok {
		bad, _ = strconv.Atoi(s)
	}
	elem := func(i int) string {
		s, _ := get("e" + strconv.Itoa(i))
		if i == bad {
			return `"x"`
		}
		return s
	}
	switch class {
	case "syntax":
		return []byte(`[1,`)
	case "empty":
		return []byte(``)
	case "null":
		return []byte(`null`)
	case "scalar":
		return []byte(`7`)
	case "array":
		var parts []string
		for i := 0; i < cnt; i++ {
			parts = append(parts, elem(i))
		}
		return []byte("[" + strings.Join(parts, ",") + "]")
	case "object":
		var parts []string
		for i := 0; i < cnt; i++ {
			k, _ := get("k" + strconv.Itoa(i))
			parts = append(parts, `"`+k+`":`+elem(i))
		}
		return []byte("{" + strings.Join(parts, ",") + "}")
	}
	panic(diverged{"unknown json class " + class})
}

// RunReplay runs every case of the file against the native build and prints one VCASE line per case.
func RunReplay(path string, harnesses map[string]func()) {
	b, err := os.ReadFile(path)
	if err != nil {
		panic(err)
	}
	var cases []Case
	if err := json.Unmarshal(b, &cases); err != nil {
		panic(err)
	}
	for i := range cases {
		outcome, out, obs := runCase(&cases[i], harnesses)
		fmt.Printf("VCASE %d %s\n", i, outcome)
		fmt.Printf("VOUT %d %d\n", i, out)
		fmt.Printf("VOBS %d %s\n", i, strings.Join(obs, " "))
	}
}

func runCase(c *Case, harnesses map[string]func()) (outcome string, outBytes int, obs []string) {
	h, ok := harnesses[c.Harness]
	if !ok {
		return "NOHARNESS", 0, nil
	}
	cur = c
	scope = "r"
	scopeCnt = map[string]int{}
	ticks = map[string]int{}
	obsLog = nil
	snapOn = false
	// capture the process's standard output and error around the harness
	r, w, _ := os.Pipe()
	so, se := os.Stdout, os.Stderr
	os.Stdout, os.Stderr = w, w
	done := make(chan int)
	go func() {
		n, _ := io.Copy(io.Discard, r)
		done <- int(n)
	}()
	start := time.Now()
	func() {
		defer func() {
			if r := recover(); r != nil {
				switch x := r.(type) {
				case assertFail:
					outcome = "ASSERT " + x.label
				case diverged:
					outcome = "DIVERGED " + x.msg
				default:
					outcome = "PANIC " + strings.ReplaceAll(fmt.Sprint(r), "\n", " ")
				}
			}
		}()
		h()
		outcome = "OK"
	}()
	_ = start
	w.Close()
	os.Stdout, os.Stderr = so, se
	outBytes = <-done
	r.Close()
	return outcome, outBytes, obsLog
}
