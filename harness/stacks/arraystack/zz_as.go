package arraystack

import (
	"github.com/emirpasic/gods/v2/containers"
	"github.com/emirpasic/gods/v2/lists/arraylist"
	v "github.com/emirpasic/gods/v2/zzvsup"
)

func VGStack() (*Stack[int], []int) {
	l, vals := arraylist.VGList()
	pre := make([]int, len(vals))
	for i := range vals {
		pre[len(vals)-1-i] = vals[i]
	}
	return &Stack[int]{list: l}, pre
}

func VHStackStep() {
	s, pre := VGStack()
	containers.VLinStep(containers.VLin{C: s, Push: s.Push, Pop: s.Pop, Peek: s.Peek, LIFO: true,
		Inv: func() { v.Assert(s.list != nil, "inv-list") }}, pre)
}

func VHIter() {
	s, pre := VGStack()
	containers.VIterStep(func() containers.IteratorWithIndex[int] { return s.Iterator() }, pre, s)
}

// VHSnap: returned slices are snapshots, argument slices are copied, GetSortedValues leaves the container alone (C16).
func VHSnap() {
	c, _ := VGStack()
	containers.VSnapStep(containers.VSnap{C: c, Mutate: []func(){c.Clear, func() { c.Push(v.Int("m")) }, func() { c.Pop() }}})
}
