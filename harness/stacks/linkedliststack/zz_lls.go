package linkedliststack

import (
	vl "github.com/emirpasic/gods/v2/zzvlib"
	"encoding/json"
	"github.com/emirpasic/gods/v2/containers"
	"github.com/emirpasic/gods/v2/lists/singlylinkedlist"
	v "github.com/emirpasic/gods/v2/zzvsup"
)

func VGStack() (*Stack[int], []int) {
	l, vals := singlylinkedlist.VGList()
	return &Stack[int]{list: l}, vals
}

func VHStackStep() {
	s, pre := VGStack()
	containers.VLinStep(containers.VLin{Name: "LinkedListStack", C: s, Push: s.Push, Pop: s.Pop, Peek: s.Peek, LIFO: true,
		Inv: func() { v.Assert(s.list != nil, "inv-list"); singlylinkedlist.VInv(s.list) }}, pre)
}

func VHIter() {
	s, pre := VGStack()
	containers.VIterStep(func() containers.IteratorWithIndex[int] { return s.Iterator() }, pre, s)
}

// VHSnap: returned slices are snapshots, argument slices are copied, GetSortedValues leaves the container alone (C16).
func VHSnap() {
	c, _ := VGStack()
	containers.VSnapStep(containers.VSnap{C: c, Mutate: []func(){c.Clear, func() { c.Push(v.Int("m")) }, func() { c.Pop() }}})
}

var _ = vl.Less

func vJSON(c *Stack[int]) containers.VJSON {
	return containers.VJSON{C: c, ToJSON: c.ToJSON, FromJSON: c.FromJSON,
		Marshal: func() ([]byte, error) { return json.Marshal(c) },
		Unmarshal: func(data []byte) error { return json.Unmarshal(data, c) },
		Inv:     func() { v.Assert(c.list != nil, "inv-list"); singlylinkedlist.VInv(c.list) },
		Step:    func() { x := v.Int("sx"); c.Push(x); y, ok := c.Peek(); v.Assert(v.And(ok, y == x), "C12:push-after-load") },
		Fresh:   func() containers.VJSON { return vJSON(New[int]()) },
		Ref: func(ks, xs []int) ([]int, []int) { return nil, xs },
		Drain: func() []int { var out []int; for { x, ok := c.Pop(); if !ok { return out }; out = append(out, x) } },
	}
}

// VHJSONRound: ToJSON / json.Marshal / FromJSON round trip from an arbitrary state (C11).
func VHJSONRound() {
	c, _ := VGStack()
	containers.VJSONRound(vJSON(c))
}

// VHJSONLoad: FromJSON of an arbitrary document into an arbitrary prior state (C12, C17).
func VHJSONLoad() {
	c, _ := VGStack()
	containers.VJSONLoad(vJSON(c))
}

// VHHistory: D operations in a row from the constructor (see VMapHistory).
func VHHistory() {
	s := New[int]()
	containers.VLinHistory(containers.VLin{Name: "LinkedListStack", C: s, Push: s.Push, Pop: s.Pop, Peek: s.Peek, LIFO: true, Inv: func() { singlylinkedlist.VInv(s.list) }})
}
