package linkedliststack

import (
	"github.com/emirpasic/gods/v2/containers"
	"github.com/emirpasic/gods/v2/lists/singlylinkedlist"
	v "github.com/emirpasic/gods/v2/zzvsup"
)

func VGStack() (*Stack[int], []int) {
	l, vals := singlylinkedlist.VGList()
	return &Stack[int]{list: l}, vals
}

func VHStackStep() {
	s, pre := VGStack()
	containers.VLinStep(containers.VLin{C: s, Push: s.Push, Pop: s.Pop, Peek: s.Peek, LIFO: true,
		Inv: func() { v.Assert(s.list != nil, "inv-list"); singlylinkedlist.VInv(s.list) }}, pre)
}

func VHIter() {
	s, pre := VGStack()
	containers.VIterStep(func() containers.IteratorWithIndex[int] { return s.Iterator() }, pre, s)
}

// VHSnap: returned slices are snapshots, argument slices are copied, GetSortedValues leaves the container alone (C16).
func VHSnap() {
	c, _ := VGStack()
	containers.VSnapStep(containers.VSnap{C: c, Mutate: []func(){c.Clear, func() { c.Push(v.Int("m")) }, func() { c.Pop() }}})
}
