// Package vsup holds the harness intrinsics. This is the variant the symbolic engine loads: the engine
// intercepts every call, so the bodies are never executed. The native replay runtime with the same API
// is /verif/harness/zzvsup_native/vsup.go; both are injected with -overlay as <repo>/zzvsup/vsup.go.
package vsup

// Symbolic reports whether the harness runs under the symbolic engine.
func Symbolic() bool { return false }

func Cfg(name string) int            { return 0 }
func CfgOr(name string, d int) int   { return d }
func Int(tag string) int             { return 0 }
func Bool(tag string) bool           { return false }
func IntIn(tag string, lo, hi int) int { return lo }
func Assume(c bool)                  {}
func Assert(c bool, label string)    {}
func Ite(c bool, a, b int) int       { return a }
func Or(a, b bool) bool              { return a || b }
func And(a, b bool) bool             { return a && b }
func Implies(a, b bool) bool         { return !a || b }
func Split(x, lo, hi int) int        { return x }
func Pred(id string, a, b int) bool  { return false }
func Fn(id string, a, b int) int     { return 0 }
func Tick(counter string)            {}
func Ticks(counter string) int       { return 0 }
func BeginOp(readonly bool, roots ...any) {}
func EndOp()                         {}
func Fresh()                         {}
func ExpectPanic(f func()) bool      { return false }
func Cover(label string)             {}
func Observe(tag string, x int)      {}
func Disjoint(a, b any) bool         { return true }
func SameObject(a, b any) bool       { return false }
func JSONInput(tag string) []byte    { return nil }

// JSONDoc builds an input document for FromJSON: class 0 syntax error, 1 empty input, 2 null, 3 a number,
// 4 array of vals, 5 object keys[i]:vals[i]; element `bad` (if >= 0) is a JSON string where a number is expected.
func JSONDoc(class int, keys, vals []int, bad int) []byte { return nil }

// Symbolic strings are order-isomorphic atoms: Str draws one, StrOf/IntOf convert between a string and its atom
// number (0 is the empty string). Only comparison, storage and JSON (un)marshalling of such strings is modelled.
func Str(tag string) string { return "" }
func StrOf(x int) string    { return "" }
func IntOf(s string) int    { return 0 }

// JSONDocS is JSONDoc for documents whose keys and values are strings; element `bad` is a number.
func JSONDocS(class int, keys, vals []string, bad int) []byte { return nil }

// JSONKind classifies bytes: 0 not valid JSON, 2 null, 3 scalar, 4 array, 5 object.
func JSONKind(data []byte) int { return 0 }

// Track starts recording whether anything reachable from roots is modified; Changed reports it.
func Track(roots ...any) {}
func Changed() bool      { return false }
func Unsupported(why string)         {}

// Concrete reports whether b is known without asking the solver (always true natively).
func Concrete(b bool) bool { return true }

// Lazy returns a pointer whose target is produced by gen(s) when the cell holding it is first loaded.
func Lazy[T, S any](gen func(*S) *T, s *S) *T { return nil }

// Peek returns the summary of the unexpanded thunk held in *cell, or nil.
func Peek[T, S any](cell **T) *S { return nil }

func LazySlice[E, S any](gen func(*S) []E, s *S) []E { return nil }
func PeekSlice[E, S any](cell *[]E) *S               { return nil }
