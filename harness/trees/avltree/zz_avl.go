package avltree

import (
	"github.com/emirpasic/gods/v2/maps"
	"strings"
	"encoding/json"
	"github.com/emirpasic/gods/v2/containers"
	vl "github.com/emirpasic/gods/v2/zzvlib"
	v "github.com/emirpasic/gods/v2/zzvsup"
)

// VSum summarises an unexpanded AVL subtree: every valid subtree with this parent, key range, height and size.
type VSum struct {
	parent       *Node[int, int]
	hasLo, hasHi bool
	lo, hi       int
	ht           int // height (symbolic)
	hmax         int // bound on the height (concrete)
	size         int

	forced, exp bool
	k0, v0      int
	l, r        *VSum
}

// vFib(h): fewest nodes of an AVL tree of height h.
func vFib(h int) int {
	if h == 0 {
		return 0
	}
	a, b := 0, 1
	for i := 1; i < h; i++ {
		a, b = b, a+b+1
	}
	return b
}

func vMkSum(parent *Node[int, int], hasLo bool, lo int, hasHi bool, hi int, ht int, hmax int) *VSum {
	s := &VSum{parent: parent, hasLo: hasLo, lo: lo, hasHi: hasHi, hi: hi, ht: ht, hmax: hmax}
	s.size = v.IntIn("sz", 0, (1<<hmax)-1)
	v.Assume(v.And(s.ht >= 0, s.ht <= hmax))
	min, max := 0, 0
	for h := 1; h <= hmax; h++ {
		min = v.Ite(s.ht >= h, vFib(h), min)
		max = v.Ite(s.ht >= h, (1<<h)-1, max)
	}
	v.Assume(v.And(s.size >= min, s.size <= max))
	return s
}

func vGen(s *VSum) *Node[int, int] {
	s.forced = true
	if s.hmax == 0 || s.size == 0 {
		v.Assume(s.size == 0)
		v.Assume(s.ht == 0)
		return nil
	}
	v.Assume(s.ht >= 1)
	n := &Node[int, int]{Parent: s.parent}
	n.Key = v.Int("k")
	n.Value = v.Int("v")
	if s.hasLo {
		v.Assume(vl.Less(s.lo, n.Key))
	}
	if s.hasHi {
		v.Assume(vl.Less(n.Key, s.hi))
	}
	b := v.IntIn("b", -1, 1)
	n.b = int8(b)
	hl := s.ht - 1 - v.Ite(b > 0, 1, 0)
	hr := s.ht - 1 - v.Ite(b < 0, 1, 0)
	v.Assume(v.And(hl >= 0, hr >= 0))
	ls := vMkSum(n, s.hasLo, s.lo, true, n.Key, hl, s.hmax-1)
	rs := vMkSum(n, true, n.Key, s.hasHi, s.hi, hr, s.hmax-1)
	n.Children[0] = v.Lazy(vGen, ls)
	n.Children[1] = v.Lazy(vGen, rs)
	v.Assume(s.size == 1+ls.size+rs.size)
	s.exp, s.k0, s.v0, s.l, s.r = true, n.Key, n.Value, ls, rs
	return n
}

// VNewTree is an arbitrary valid AVL tree of height <= H.
func VNewTree(H int) (*Tree[int, int], *VSum) {
	t := &Tree[int, int]{Comparator: vl.Cmp}
	root := vMkSum(nil, false, 0, false, 0, v.IntIn("ht", 0, H), H)
	t.Root = v.Lazy(vGen, root)
	t.size = root.size
	return t, root
}

func VPre(s *VSum, out []vl.Item) []vl.Item {
	if !s.forced {
		return append(out, vl.Item{T: s})
	}
	if !s.exp {
		return out
	}
	out = VPre(s.l, out)
	out = append(out, vl.Item{K: s.k0, V: s.v0})
	return VPre(s.r, out)
}

func VPost(cell **Node[int, int], out []vl.Item, depth int) []vl.Item {
	if s := v.Peek[Node[int, int], VSum](cell); s != nil {
		return append(out, vl.Item{T: s})
	}
	n := *cell
	if n == nil {
		return out
	}
	if depth > 40 {
		v.Assert(false, "inv-cyclic-or-too-deep")
		return out
	}
	out = VPost(&n.Children[0], out, depth+1)
	out = append(out, vl.Item{K: n.Key, V: n.Value})
	return VPost(&n.Children[1], out, depth+1)
}

func (s *VSum) VOutside(hasA bool, a int, hasB bool, b int) bool {
	ok := s.size == 0
	if hasA && s.hasHi {
		ok = v.Or(ok, !vl.Less(a, s.hi))
	}
	if hasB && s.hasLo {
		ok = v.Or(ok, !vl.Less(s.lo, b))
	}
	return ok
}

// vCheck asserts the AVL invariant below cell and returns (height, size).
func vCheck(cell **Node[int, int], parent *Node[int, int], hasLo bool, lo int, hasHi bool, hi int, depth int) (ht, size int) {
	if s := v.Peek[Node[int, int], VSum](cell); s != nil && s.parent == parent {
		if hasLo {
			v.Assert(s.hasLo, "inv-t-haslo")
			if s.hasLo {
				v.Assert(!vl.Less(s.lo, lo), "C01,C02,C07:inv-thunk-lo")
			}
		}
		if hasHi {
			v.Assert(s.hasHi, "inv-t-hashi")
			if s.hasHi {
				v.Assert(!vl.Less(hi, s.hi), "C01,C02,C07:inv-thunk-hi")
			}
		}
		return s.ht, s.size
	}
	n := *cell
	if n == nil {
		return 0, 0
	}
	if depth > 40 {
		v.Assert(false, "inv-cyclic-or-too-deep")
		return 0, 0
	}
	v.Assert(n.Parent == parent, "C01,C07:inv-parent")
	if hasLo {
		v.Assert(vl.Less(lo, n.Key), "C01,C02:inv-order-lo")
	}
	if hasHi {
		v.Assert(vl.Less(n.Key, hi), "C01,C02:inv-order-hi")
	}
	hl, sl := vCheck(&n.Children[0], n, hasLo, lo, true, n.Key, depth+1)
	hr, sr := vCheck(&n.Children[1], n, true, n.Key, hasHi, hi, depth+1)
	v.Assert(v.And(hr-hl <= 1, hl-hr <= 1), "C01,C07:inv-sibling-heights-differ-by-at-most-one")
	v.Assert(int(n.b) == hr-hl, "C01,C07:inv-balance-factor")
	return 1 + v.Ite(hl >= hr, hl, hr), 1 + sl + sr
}

func VInv(t *Tree[int, int]) {
	_, size := vCheck(&t.Root, nil, false, 0, false, 0, 0)
	v.Assert(t.size == size, "C01,C07,C15:inv-size")
	v.Assert(t.Size() == size, "C01,C07,C15:size")
	v.Assert(t.Empty() == (size == 0), "C15:empty")
	v.Assert(size >= 0, "C15:size-nonneg")
}

// least n+2 for which 1.45*log2(n+2)+2 >= c (exact integer arithmetic: t^145 >= 2^(100(c-2)))
var vAVLMin = []int{1, 1, 1, 2, 3, 5, 7, 11, 18, 29, 46, 74, 120, 193, 310, 500, 807, 1301, 2098, 3384, 5457, 8801, 14196, 22896, 36928, 59561, 96066, 154944, 249908, 403076, 650120, 1048576, 1691247, 2727808, 4399675, 7096227, 11445490, 18460408, 29774754, 48023639, 77457229}

func vWork(n int) {
	c := v.Ticks("cmp")
	if c >= len(vAVLMin) {
		v.Assert(false, "C07:comparator-calls-beyond-table")
		return
	}
	v.Assert(n+2 >= vAVLMin[c], "C07:comparator-calls-within-1.45log2(n+2)+2")
}

func VHPut() {
	t, root := VNewTree(v.Cfg("H"))
	n := t.size
	k, x := v.Int("key"), v.Int("val")
	t.Put(k, x)
	vWork(n)
	VInv(t)
	vl.SeqPut(VPre(root, nil), VPost(&t.Root, nil, 0), k, x, "C01:put")
}

func VHRemove() {
	t, root := VNewTree(v.Cfg("H"))
	n := t.size
	k := v.Int("key")
	t.Remove(k)
	vWork(n)
	VInv(t)
	pre := VPre(root, nil)
	if !vl.SeqRemove(pre, VPost(&t.Root, nil, 0), k, "C01:remove") {
		vl.Absent(pre, k, "C01:remove-absent-but-maybe-present")
	}
}

func VHGet() {
	t, root := VNewTree(v.Cfg("H"))
	n := t.size
	k := v.Int("key")
	v.BeginOp(true, t)
	x, found := t.Get(k)
	vWork(n)
	node := t.GetNode(k)
	v.EndOp()
	pre := VPre(root, nil)
	vl.SeqSame(pre, VPost(&t.Root, nil, 0), "C18:get-unchanged")
	vl.GetCheck(pre, k, x, found)
	v.Assert(found == (node != nil), "C01:getnode")
	if node != nil {
		v.Assert(v.And(vl.Equiv(node.Key, k), node.Value == x), "C01:getnode-value")
	}
}

func VHClear() {
	t, _ := VNewTree(v.Cfg("H"))
	cmpBefore := t.Comparator
	t.Clear()
	VInv(t)
	v.Assert(t.Root == nil, "C15:clear-root")
	v.Assert(t.Size() == 0, "C15:clear-size")
	v.Assert(t.Empty(), "C15:clear-empty")
	v.Assert(len(t.Keys()) == 0, "C15:clear-keys")
	v.Assert(len(t.Values()) == 0, "C15:clear-values")
	v.Assert(v.SameObject(cmpBefore, t.Comparator), "C15:clear-keeps-comparator")
	k, x := v.Int("key"), v.Int("val")
	t.Put(k, x)
	VInv(t)
	y, ok := t.Get(k)
	v.Assert(v.And(ok, y == x), "C15:clear-then-put-get")
	v.Assert(t.Size() == 1, "C15:clear-then-put-size")
}

func VHNav() {
	t, _ := VNewTree(v.Cfg("H"))
	op := v.CfgOr("op", -1)
	if op < 0 {
		op = v.Split(v.IntIn("op", 0, 3), 0, 3)
	}
	q := v.Int("q")
	var node *Node[int, int]
	found := false
	v.BeginOp(true, t)
	switch op {
	case vl.NavFloor:
		node, found = t.Floor(q)
	case vl.NavCeiling:
		node, found = t.Ceiling(q)
	case vl.NavLeft:
		node = t.Left()
		found = node != nil
	case vl.NavRight:
		node = t.Right()
		found = node != nil
	}
	v.EndOp()
	nk, nv := 0, 0
	if node != nil {
		nk, nv = node.Key, node.Value
	}
	vl.NavCheck(op, q, found, node != nil, nk, nv, VPost(&t.Root, nil, 0))
}

func vPick(t *Tree[int, int]) *Node[int, int] {
	n := t.Root
	if n == nil {
		v.Assume(false)
	}
	for {
		if v.Bool("stop") {
			return n
		}
		var c *Node[int, int]
		if v.Bool("goleft") {
			c = n.Children[0]
		} else {
			c = n.Children[1]
		}
		if c == nil {
			v.Assume(false)
		}
		n = c
	}
}

func VHIter() {
	t, _ := VNewTree(v.Cfg("H"))
	op := v.CfgOr("op", -1)
	if op < 0 {
		op = v.Split(v.IntIn("op", 0, 5), 0, 5)
	}
	pos := v.Split(v.IntIn("pos", 0, 2), 0, 2)
	v.BeginOp(true, t)
	it := t.Iterator()
	var x *Node[int, int]
	if pos == vl.PosBetween {
		x = vPick(t)
		it.node, it.position = x, between
	} else if pos == vl.PosEnd {
		it.End()
	}
	xk := 0
	if x != nil {
		xk = x.Key
	}
	ok := false
	switch op {
	case vl.ItNext:
		ok = it.Next()
	case vl.ItPrev:
		ok = it.Prev()
	case vl.ItBegin:
		it.Begin()
	case vl.ItEnd:
		it.End()
	case vl.ItFirst:
		ok = it.First()
	case vl.ItLast:
		ok = it.Last()
	}
	r := it.Node()
	if ok && r != nil {
		v.Assert(v.And(it.Key() == r.Key, it.Value() == r.Value), "C08:key-value-of-position")
	}
	v.EndOp()
	rk, rv := 0, 0
	if r != nil {
		rk, rv = r.Key, r.Value
	}
	vl.IterCheck(op, pos, xk, ok, r != nil, rk, rv, int(it.position), VPost(&t.Root, nil, 0))
}

// VGSmall builds a tree by the library's own Put of n <= N arbitrary pairs (every insertion order and every
// coincidence of keys is a solver choice).
func VGSmall() *Tree[int, int] {
	n := v.Split(v.IntIn("n", 0, v.CfgOr("N", 3)), 0, 16)
	t := NewWith[int, int](vl.Cmp)
	for i := 0; i < n; i++ {
		t.Put(v.Int("k"), v.Int("x"))
	}
	return t
}

// VHIterSmall: all ten iterator calls incl. NextTo/PrevTo with an arbitrary (uninterpreted) predicate, against the
// cursor model over Keys()/Values().
func VHIterSmall() {
	t := VGSmall()
	keys, vals := t.Keys(), t.Values()
	containers.VKeyIterStep(func() containers.IteratorWithKey[int, int] { return t.Iterator() }, keys, vals, t)
}

// VHKeysValues: Keys()/Values() list every pair exactly once, ascending, position aligned, and agree with Size() (C01, C02, C15).
func VHKeysValues() {
	t := VGSmall()
	VInv(t)
	v.BeginOp(true, t)
	keys, vals := t.Keys(), t.Values()
	v.EndOp()
	v.Assert(len(keys) == t.Size(), "C15,C01:len-keys-is-size")
	v.Assert(t.Root.Size() == t.Size(), "C07,C15:node-count-is-size")
	v.Assert(len(vals) == t.Size(), "C15,C01:len-values-is-size")
	for i := 1; i < len(keys); i++ {
		v.Assert(vl.Less(keys[i-1], keys[i]), "C02,C01:keys-strictly-ascending")
	}
	if len(keys) == len(vals) {
		for i := range keys {
			x, ok := t.Get(keys[i])
			v.Assert(v.And(ok, x == vals[i]), "C01:values-position-aligned")
		}
	}
	q := v.Int("q")
	_, found := t.Get(q)
	listed := false
	for _, k := range keys {
		listed = v.Or(listed, vl.Equiv(k, q))
	}
	v.Assert(found == listed, "C01:keys-lists-exactly-the-live-keys")
}

// VHSnap: returned slices are snapshots, argument slices are copied, GetSortedValues leaves the container alone (C16).
func VHSnap() {
	c := VGSmall()
	containers.VSnapStep(containers.VSnap{C: c, Keys: c.Keys, Mutate: []func(){c.Clear, func() { c.Put(v.Int("mk"), v.Int("mv")) }, func() { c.Remove(v.Int("mk")) }}})
}

var _ = vl.Less

func vJSON(c *Tree[int, int]) containers.VJSON {
	return containers.VJSON{C: c, ToJSON: c.ToJSON, FromJSON: c.FromJSON,
		Marshal: func() ([]byte, error) { return json.Marshal(c) },
		Unmarshal: func(data []byte) error { return json.Unmarshal(data, c) },
		Inv:     func() { VInv(c) },
		Step:    func() { k, x := v.Int("sk"), v.Int("sx"); c.Put(k, x); y, ok := c.Get(k); v.Assert(v.And(ok, y == x), "C12:put-after-load") },
		Fresh:   func() containers.VJSON { return vJSON(NewWith[int, int](vl.Cmp)) },
		Object: true, Keys: c.Keys, Get: c.Get, Ref: func(ks, xs []int) ([]int, []int) { return vl.SortPairs(vl.LastPerKey(ks, xs)) },
	}
}

// VHJSONRound: ToJSON / json.Marshal / FromJSON round trip from an arbitrary state (C11).
func VHJSONRound() {
	c := VGSmall()
	containers.VJSONRound(vJSON(c))
}

// VHJSONLoad: FromJSON of an arbitrary document into an arbitrary prior state (C12, C17).
func VHJSONLoad() {
	c := VGSmall()
	containers.VJSONLoad(vJSON(c))
}

// VHString: String() begins with the container's name and is read-only (C15, C18).
func VHString() {
	c := VGSmall()
	v.BeginOp(true, c)
	s := c.String()
	v.EndOp()
	v.Assert(strings.HasPrefix(s, "AVLTree"), "C15:string-begins-with-container-name")
}

// VHHistory: D operations in a row from the constructor (see VMapHistory).
func VHHistory() {
	t := NewWith[int, int](vl.Cmp)
	if v.CfgOr("ctor", 0) == 1 { // the default-comparator constructor (cmp.Compare); only meaningful with cmp=0
		t = New[int, int]()
	}
	maps.VMapHistory(t, maps.VKind{Name: "AVLTree", SortedKeys: true, Inv: func() { VInv(t) }})
}

// VHAscHistory: n ascending Puts from the constructor, then D arbitrary Put/Remove steps (see VMapAscHistory).
func VHAscHistory() {
	t := NewWith[int, int](vl.Cmp)
	if v.CfgOr("ctor", 0) == 1 { // the default-comparator constructor (cmp.Compare); only meaningful with cmp=0
		t = New[int, int]()
	}
	maps.VMapAscHistory(t, maps.VKind{Name: "AVLTree", SortedKeys: true, Inv: func() { VInv(t) }})
}

// vDeepCheck: whole-structure observers on a large tree of concrete shape and symbolic content.
func vDeepCheck(t *Tree[int, int], ek, ev []int) {
	VInv(t)
	v.BeginOp(true, t)
	keys, vals := t.Keys(), t.Values()
	v.EndOp()
	v.Assert(len(keys) == len(ek), "C01,C15:keys-length")
	v.Assert(len(vals) == len(ek), "C01,C15:values-length")
	if len(keys) == len(ek) && len(vals) == len(ek) {
		for i := range ek {
			v.Assert(keys[i] == ek[i], "C01,C02:keys-in-order")
			v.Assert(vals[i] == ev[i], "C01:values-position-aligned")
		}
	}
	v.Assert(t.Size() == len(ek), "C01,C15:size")
	// a full forward and a full backward pass of a fresh iterator
	v.BeginOp(true, t)
	it := t.Iterator()
	i := 0
	for it.Next() {
		if i < len(ek) {
			v.Assert(v.And(it.Key() == ek[i], it.Value() == ev[i]), "C08,C02:forward-iteration")
		}
		i++
	}
	v.Assert(i == len(ek), "C08:forward-iteration-count")
	v.Assert(!it.Next(), "C08:next-saturates-at-end")
	for it.Prev() {
		i--
		if i >= 0 && i < len(ek) {
			v.Assert(v.And(it.Key() == ek[i], it.Value() == ev[i]), "C08,C02:backward-iteration")
		}
	}
	v.Assert(i == 0, "C08:backward-iteration-count")
	v.EndOp()
}

func vDeepKeys(n int) ([]int, []int) {
	ek, ev := make([]int, n), make([]int, n)
	for i := 0; i < n; i++ {
		ek[i], ev[i] = v.Int("k"), v.Int("x")
		if i > 0 {
			v.Assume(vl.Less(ek[i-1], ek[i]))
		}
	}
	return ek, ev
}

func vPerfect(parent *Node[int, int], h int, seq *[]*Node[int, int]) *Node[int, int] {
	if h == 0 {
		return nil
	}
	n := &Node[int, int]{Parent: parent}
	n.Children[0] = vPerfect(n, h-1, seq)
	*seq = append(*seq, n)
	n.Children[1] = vPerfect(n, h-1, seq)
	return n
}

// vFibTree is the SPARSEST AVL tree of height h (every node leans to the same side: Fibonacci tree, the deepest tree
// for its size - height ~1.44*log2(n)); side 0 leans left, 1 leans right.
func vFibTree(parent *Node[int, int], h int, side int, seq *[]*Node[int, int]) *Node[int, int] {
	if h == 0 {
		return nil
	}
	n := &Node[int, int]{Parent: parent}
	hl, hr := h-1, h-2
	if side == 1 {
		hl, hr = h-2, h-1
	}
	if h == 1 {
		hl, hr = 0, 0
	}
	n.b = int8(hr - hl)
	n.Children[0] = vFibTree(n, hl, side, seq)
	*seq = append(*seq, n)
	n.Children[1] = vFibTree(n, hr, side, seq)
	return n
}

// VHDeep: Keys/Values/full iteration on the perfect tree of height H (2^H - 1 nodes) or, with shape=1/2, on the
// sparsest (Fibonacci) AVL tree of height H leaning left/right; symbolic keys and values.
func VHDeep() {
	H := v.Cfg("H")
	var seq []*Node[int, int]
	t := &Tree[int, int]{Comparator: vl.Cmp}
	if sh := v.CfgOr("shape", 0); sh > 0 {
		t.Root = vFibTree(nil, H, sh-1, &seq)
	} else {
		t.Root = vPerfect(nil, H, &seq)
	}
	t.size = len(seq)
	ek, ev := vDeepKeys(len(seq))
	for i, n := range seq {
		n.Key, n.Value = ek[i], ev[i]
	}
	vDeepCheck(t, ek, ev)
	if len(seq) > 0 {
		v.Assert(t.Left() == seq[0], "C02:left-is-least")
		v.Assert(t.Right() == seq[len(seq)-1], "C02:right-is-greatest")
	}
}
