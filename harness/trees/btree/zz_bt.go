package btree

import (
	"encoding/json"
	"github.com/emirpasic/gods/v2/containers"
	"github.com/emirpasic/gods/v2/maps"
	vl "github.com/emirpasic/gods/v2/zzvlib"
	v "github.com/emirpasic/gods/v2/zzvsup"
	"strings"
)

// VSum summarises an unexpanded B-tree subtree of order m with exactly `levels` levels.
type VSum struct {
	parent       *Node[int, int]
	hasLo, hasHi bool
	lo, hi       int
	levels       int
	root         bool
	m            int
	size         int

	forced bool
	d      *VNode
}

// VNode records a generated node; its entries and children are generated together, lazily (content).
type VNode struct {
	s       *VSum
	node    *Node[int, int]
	content *VContent
}

type VContent struct {
	entries  []*Entry[int, int]
	children []*Node[int, int]
	k0, v0   []int
	cs       []*VSum
}

func vMinEnt(m int) int { return (m+1)/2 - 1 }

func vMinSize(levels, m int) int { // non-root subtree
	if levels == 0 {
		return 0
	}
	me := vMinEnt(m)
	tot, c := me, me+1
	for i := 1; i < levels; i++ {
		tot += c * me
		c *= me + 1
	}
	return tot
}

func vMaxSize(levels, m int) int {
	tot, c := 0, 1
	for i := 0; i < levels; i++ {
		tot += c * (m - 1)
		c *= m
	}
	return tot
}

func vMkSum(parent *Node[int, int], hasLo bool, lo int, hasHi bool, hi int, levels int, root bool, m int) *VSum {
	s := &VSum{parent: parent, hasLo: hasLo, lo: lo, hasHi: hasHi, hi: hi, levels: levels, root: root, m: m}
	min := vMinSize(levels, m)
	if root {
		min = 0
		if levels == 1 {
			min = 1
		}
		if levels > 1 {
			min = 1 + 2*vMinSize(levels-1, m)
		}
	}
	s.size = v.IntIn("sz", min, vMaxSize(levels, m))
	return s
}

func vGen(s *VSum) *Node[int, int] {
	s.forced = true
	if s.levels == 0 {
		return nil
	}
	n := &Node[int, int]{Parent: s.parent}
	d := &VNode{s: s, node: n}
	s.d = d
	d.content = v.Lazy(vGenContent, d)
	n.Entries = v.LazySlice(vGenEntries, d)
	n.Children = v.LazySlice(vGenChildren, d)
	return n
}

func vGenEntries(d *VNode) []*Entry[int, int] { return d.content.entries }
func vGenChildren(d *VNode) []*Node[int, int] { return d.content.children }

func vGenContent(d *VNode) *VContent {
	s, n := d.s, d.node
	c := &VContent{}
	loE := vMinEnt(s.m)
	if s.root {
		loE = 1
	}
	ne := v.Split(v.IntIn("e", loE, s.m-1), loE, s.m-1)
	spare := v.CfgOr("spare", 0)
	c.entries = make([]*Entry[int, int], ne, ne+spare)
	c.k0 = make([]int, ne)
	c.v0 = make([]int, ne)
	hasPrev, prev := s.hasLo, s.lo
	for i := 0; i < ne; i++ {
		k := v.Int("k")
		if hasPrev {
			v.Assume(vl.Less(prev, k))
		}
		c.entries[i] = &Entry[int, int]{Key: k, Value: v.Int("v")}
		c.k0[i], c.v0[i] = k, c.entries[i].Value
		hasPrev, prev = true, k
	}
	if s.hasHi {
		v.Assume(vl.Less(prev, s.hi))
	}
	if s.levels == 1 {
		v.Assume(s.size == ne)
		c.children = []*Node[int, int]{}
		return c
	}
	c.children = make([]*Node[int, int], ne+1, ne+1+spare)
	c.cs = make([]*VSum, ne+1)
	tot := ne
	for i := 0; i <= ne; i++ {
		hl, l, hh, h := s.hasLo, s.lo, s.hasHi, s.hi
		if i > 0 {
			hl, l = true, c.k0[i-1]
		}
		if i < ne {
			hh, h = true, c.k0[i]
		}
		cs := vMkSum(n, hl, l, hh, h, s.levels-1, false, s.m)
		c.cs[i] = cs
		c.children[i] = v.Lazy(vGen, cs)
		tot = tot + cs.size
	}
	v.Assume(s.size == tot)
	return c
}

// VNewTree is an arbitrary valid B-tree of order m with exactly L levels (L = 0: the empty tree).
func VNewTree(m, L int) (*Tree[int, int], *VSum) {
	t := &Tree[int, int]{Comparator: vl.Cmp, m: m}
	root := vMkSum(nil, false, 0, false, 0, L, true, m)
	t.Root = v.Lazy(vGen, root)
	t.size = root.size
	return t, root
}

// vNewCfg: configuration m = order, L = max levels: the number of levels is a symbolic choice in 0..L.
func vNewCfg() (*Tree[int, int], *VSum) {
	m, L := v.Cfg("m"), v.Cfg("L")
	lv := v.Split(v.IntIn("levels", v.CfgOr("Lmin", 0), L), 0, L)
	return VNewTree(m, lv)
}

func (s *VSum) VOutside(hasA bool, a int, hasB bool, b int) bool {
	ok := s.size == 0
	if hasA && s.hasHi {
		ok = v.Or(ok, !vl.Less(a, s.hi))
	}
	if hasB && s.hasLo {
		ok = v.Or(ok, !vl.Less(s.lo, b))
	}
	return ok
}

func vUntouched(d *VNode) bool { return v.Peek[VContent, VNode](&d.content) != nil }

// VPre lists the pre-state in order.
func VPre(s *VSum, out []vl.Item) []vl.Item {
	if !s.forced {
		return append(out, vl.Item{T: s})
	}
	if s.levels == 0 {
		return out
	}
	if vUntouched(s.d) {
		return append(out, vl.Item{T: s})
	}
	c := s.d.content
	for i := range c.k0 {
		if c.cs != nil {
			out = VPre(c.cs[i], out)
		}
		out = append(out, vl.Item{K: c.k0[i], V: c.v0[i]})
	}
	if c.cs != nil {
		out = VPre(c.cs[len(c.k0)], out)
	}
	return out
}

// VPost lists the current tree in order without expanding anything.
func VPost(cell **Node[int, int], out []vl.Item, depth int) []vl.Item {
	if s := v.Peek[Node[int, int], VSum](cell); s != nil {
		return append(out, vl.Item{T: s})
	}
	n := *cell
	if n == nil {
		return out
	}
	if depth > 12 {
		v.Assert(false, "inv-cyclic-or-too-deep")
		return out
	}
	if d := v.PeekSlice[*Entry[int, int], VNode](&n.Entries); d != nil && vUntouched(d) {
		return append(out, vl.Item{T: d.s})
	}
	ne := len(n.Entries)
	nc := len(n.Children)
	for i := 0; i < ne; i++ {
		if i < nc {
			out = VPost(&n.Children[i], out, depth+1)
		}
		e := n.Entries[i]
		if e == nil {
			v.Assert(false, "inv-nil-entry")
			continue
		}
		out = append(out, vl.Item{K: e.Key, V: e.Value})
	}
	for i := ne; i < nc; i++ {
		out = VPost(&n.Children[i], out, depth+1)
	}
	return out
}

func vLevels(cell **Node[int, int], depth int) int {
	if s := v.Peek[Node[int, int], VSum](cell); s != nil {
		return s.levels
	}
	n := *cell
	if n == nil || depth > 12 {
		return 0
	}
	if d := v.PeekSlice[*Entry[int, int], VNode](&n.Entries); d != nil && vUntouched(d) {
		return d.s.levels
	}
	if len(n.Children) == 0 {
		return 1
	}
	return 1 + vLevels(&n.Children[0], depth+1)
}

func vThunkFits(s *VSum, parent *Node[int, int], hasLo bool, lo int, hasHi bool, hi int, levels int, root bool) {
	v.Assert(s.levels == levels, "C01,C07:inv-leaves-at-same-depth")
	v.Assert(s.root == root, "C01,C07:inv-thunk-root-fill")
	if hasLo {
		v.Assert(s.hasLo, "inv-t-haslo")
		if s.hasLo {
			v.Assert(!vl.Less(s.lo, lo), "C01,C02,C07:inv-thunk-lo")
		}
	}
	if hasHi {
		v.Assert(s.hasHi, "inv-t-hashi")
		if s.hasHi {
			v.Assert(!vl.Less(hi, s.hi), "C01,C02,C07:inv-thunk-hi")
		}
	}
}

// vCheck asserts Knuth's B-tree conditions below cell and returns the number of entries.
func vCheck(cell **Node[int, int], parent *Node[int, int], hasLo bool, lo int, hasHi bool, hi int, levels int, root bool, m int, depth int) int {
	if s := v.Peek[Node[int, int], VSum](cell); s != nil && s.parent == parent {
		vThunkFits(s, parent, hasLo, lo, hasHi, hi, levels, root)
		return s.size
	}
	n := *cell
	if n == nil {
		v.Assert(levels == 0, "C01,C07:inv-leaves-at-same-depth")
		return 0
	}
	if depth > 12 {
		v.Assert(false, "inv-cyclic-or-too-deep")
		return 0
	}
	v.Assert(levels > 0, "C01,C07:inv-leaves-at-same-depth")
	v.Assert(n.Parent == parent, "C01,C07:inv-parent")
	if d := v.PeekSlice[*Entry[int, int], VNode](&n.Entries); d != nil && vUntouched(d) {
		// the node object exists but its content was never read: it is still summarised by its original summary
		v.Assert(d.node == n, "inv-content-owner")
		v.Assert(v.PeekSlice[*Node[int, int], VNode](&n.Children) == d, "inv-children-cell")
		vThunkFits(d.s, parent, hasLo, lo, hasHi, hi, levels, root)
		return d.s.size
	}
	e := len(n.Entries)
	loE := vMinEnt(m)
	if root {
		loE = 1
	}
	v.Assert(e >= loE, "C01,C07:inv-node-underfull")
	v.Assert(e <= m-1, "C01,C07:inv-node-overfull")
	if levels <= 1 {
		v.Assert(len(n.Children) == 0, "C01,C07:inv-leaf-with-children")
	} else {
		v.Assert(len(n.Children) == e+1, "C01,C07:inv-k-children-k-1-keys")
	}
	hasPrev, prev := hasLo, lo
	for i := 0; i < e; i++ {
		if n.Entries[i] == nil {
			v.Assert(false, "inv-nil-entry")
			return 0
		}
		k := n.Entries[i].Key
		if hasPrev {
			v.Assert(vl.Less(prev, k), "C01,C02:inv-order")
		}
		hasPrev, prev = true, k
	}
	if hasHi && hasPrev {
		v.Assert(vl.Less(prev, hi), "C01,C02:inv-order-hi")
	}
	tot := e
	if len(n.Children) == e+1 {
		for i := 0; i <= e; i++ {
			hl, l, hh, h := hasLo, lo, hasHi, hi
			if i > 0 {
				hl, l = true, n.Entries[i-1].Key
			}
			if i < e {
				hh, h = true, n.Entries[i].Key
			}
			tot = tot + vCheck(&n.Children[i], n, hl, l, hh, h, levels-1, false, m, depth+1)
		}
	}
	return tot
}

func VInv(t *Tree[int, int]) {
	lv := vLevels(&t.Root, 0)
	size := vCheck(&t.Root, nil, false, 0, false, 0, lv, true, t.m, 0)
	v.Assert(t.size == size, "C01,C07,C15:inv-size")
	v.Assert(t.Size() == size, "C01,C07,C15:size")
	v.Assert(t.Empty() == (size == 0), "C15:empty")
	v.Assert(size >= 0, "C15:size-nonneg")
	v.Assert(t.Height() == lv, "C07:inv-height-is-number-of-levels")
}

// floor of the least n+1 for which 4*(log2(m)+1)*(log_ceil(m/2)(n+1)+1) >= c, by order m (rounded down: never stricter
// than the documented bound)
var vBTMin = map[int][]int{
	3:  {1, 1, 1, 1, 1, 1, 1, 1, 1, 1, 1, 1, 1, 1, 1, 1, 1, 1, 1, 1, 1, 2, 2, 2, 2, 2, 2, 3, 3, 3, 3, 3, 4, 4, 4, 5, 5, 5, 6, 6, 7, 7, 8, 8, 9, 10, 10, 11, 12, 13, 14, 15, 16, 17, 18, 19, 21, 22, 24, 26, 27, 29, 31, 34, 36, 39, 41, 44, 47, 51, 54, 58, 62, 66, 71, 76, 81, 87, 93, 99, 106},
	4:  {1, 1, 1, 1, 1, 1, 1, 1, 1, 1, 1, 1, 1, 1, 1, 1, 1, 1, 1, 1, 1, 1, 1, 1, 1, 2, 2, 2, 2, 2, 2, 2, 3, 3, 3, 3, 3, 4, 4, 4, 5, 5, 5, 5, 6, 6, 7, 7, 7, 8, 8, 9, 10, 10, 11, 11, 12, 13, 14, 15, 15, 16, 17, 19, 20, 21, 22, 23, 25, 26, 28, 30, 31, 33, 35, 38, 40, 42, 45, 47, 50},
	5:  {1, 1, 1, 1, 1, 1, 1, 1, 1, 1, 1, 1, 1, 1, 1, 1, 1, 1, 1, 1, 1, 1, 2, 2, 2, 2, 2, 3, 3, 3, 3, 4, 4, 5, 5, 6, 6, 7, 7, 8, 9, 9, 10, 11, 12, 13, 14, 16, 17, 19, 20, 22, 24, 26, 28, 31, 34, 37, 40, 43, 47, 51, 56, 60, 66, 71, 78, 84, 92, 100, 108, 118, 128, 139, 151, 164, 178, 193, 210, 228, 248},
	6:  {1, 1, 1, 1, 1, 1, 1, 1, 1, 1, 1, 1, 1, 1, 1, 1, 1, 1, 1, 1, 1, 1, 1, 1, 2, 2, 2, 2, 2, 3, 3, 3, 3, 4, 4, 4, 5, 5, 6, 6, 7, 7, 8, 8, 9, 10, 11, 12, 13, 14, 15, 16, 17, 19, 20, 22, 24, 26, 28, 30, 33, 35, 38, 41, 44, 48, 52, 56, 61, 65, 71, 76, 82, 89, 96, 104, 112, 121, 131, 141, 152},
	7:  {1, 1, 1, 1, 1, 1, 1, 1, 1, 1, 1, 1, 1, 1, 1, 1, 1, 1, 1, 1, 1, 1, 1, 2, 2, 2, 2, 2, 3, 3, 3, 4, 4, 5, 5, 6, 6, 7, 7, 8, 9, 10, 11, 12, 13, 15, 16, 18, 19, 21, 23, 25, 28, 31, 34, 37, 40, 44, 49, 53, 58, 64, 70, 77, 84, 92, 101, 111, 121, 133, 146, 160, 175, 192, 210, 230, 252, 276, 303, 331, 363},
	8:  {1, 1, 1, 1, 1, 1, 1, 1, 1, 1, 1, 1, 1, 1, 1, 1, 1, 1, 1, 1, 1, 1, 1, 1, 1, 2, 2, 2, 2, 3, 3, 3, 3, 4, 4, 5, 5, 6, 6, 7, 7, 8, 9, 10, 11, 12, 13, 14, 15, 17, 19, 20, 22, 24, 26, 29, 31, 34, 38, 41, 45, 49, 53, 58, 63, 69, 76, 82, 90, 98, 107, 117, 127, 139, 152, 165, 181, 197, 215, 234, 255},
	10: {1, 1, 1, 1, 1, 1, 1, 1, 1, 1, 1, 1, 1, 1, 1, 1, 1, 1, 1, 1, 1, 1, 1, 1, 1, 2, 2, 2, 2, 2, 3, 3, 3, 4, 4, 5, 5, 6, 6, 7, 8, 9, 9, 10, 12, 13, 14, 15, 17, 19, 21, 23, 25, 27, 30, 33, 36, 40, 44, 48, 53, 58, 64, 70, 77, 84, 93, 102, 112, 123, 135, 148, 162, 178, 196, 215, 236, 259, 284, 312, 343, 376, 413, 453, 498, 546, 599, 658, 722, 793, 870, 955, 1048, 1151, 1263, 1386, 1522, 1670, 1833, 2012, 2208, 2424, 2661, 2920, 3205, 3518, 3861, 4238, 4652, 5105, 5604, 6150, 6751, 7409, 8132, 8926, 9797, 10752, 11802, 12953, 14217},
	11: {1, 1, 1, 1, 1, 1, 1, 1, 1, 1, 1, 1, 1, 1, 1, 1, 1, 1, 1, 1, 1, 1, 1, 1, 1, 2, 2, 2, 2, 3, 3, 3, 4, 4, 5, 5, 6, 6, 7, 8, 9, 10, 11, 12, 13, 15, 16, 18, 20, 22, 25, 27, 30, 34, 37, 41, 46, 51, 56, 62, 69, 76, 84, 93, 103, 114, 126, 139, 154, 170, 188, 208, 230, 254, 281, 311, 344, 380, 421, 465, 514, 569, 629, 696, 769, 850, 940, 1040, 1150, 1271, 1406, 1554, 1718, 1900, 2101, 2323, 2568, 2840, 3140, 3472, 3839, 4244, 4693, 5189, 5737, 6343, 7014, 7755, 8574, 9481, 10482, 11590, 12815, 14169, 15666, 17321, 19152, 21176, 23413, 25887, 28623},
	12: {1, 1, 1, 1, 1, 1, 1, 1, 1, 1, 1, 1, 1, 1, 1, 1, 1, 1, 1, 1, 1, 1, 1, 1, 1, 1, 2, 2, 2, 2, 3, 3, 3, 4, 4, 5, 5, 6, 6, 7, 8, 9, 10, 11, 12, 13, 14, 16, 18, 19, 22, 24, 26, 29, 32, 35, 39, 43, 48, 53, 58, 64, 71, 78, 86, 95, 105, 116, 127, 141, 155, 171, 189, 208, 229, 253, 279, 308, 339, 374, 413, 455, 502, 553, 610, 673, 742, 818, 902, 995, 1097, 1210, 1334, 1471, 1622, 1789, 1972, 2175, 2398, 2644, 2916, 3215, 3545, 3909, 4310, 4752, 5240, 5778, 6371, 7025, 7746, 8541, 9417, 10384, 11450, 12625, 13921, 15349, 16925, 18662, 20577},
	13: {1, 1, 1, 1, 1, 1, 1, 1, 1, 1, 1, 1, 1, 1, 1, 1, 1, 1, 1, 1, 1, 1, 1, 1, 1, 1, 2, 2, 2, 2, 3, 3, 3, 4, 4, 5, 5, 6, 7, 8, 8, 9, 11, 12, 13, 15, 16, 18, 20, 22, 25, 28, 31, 34, 38, 42, 46, 52, 57, 64, 71, 78, 87, 96, 107, 119, 132, 146, 162, 180, 200, 221, 246, 272, 302, 335, 372, 412, 457, 507, 563, 624, 692, 768, 852, 945, 1048, 1162, 1289, 1429, 1585, 1758, 1950, 2162, 2398, 2660, 2950, 3272, 3629, 4024, 4463, 4950, 5490, 6088, 6752, 7488, 8305, 9211, 10215, 11329, 12564, 13935, 15454, 17139, 19008, 21081, 23380, 25929, 28757, 31892, 35370},
	14: {1, 1, 1, 1, 1, 1, 1, 1, 1, 1, 1, 1, 1, 1, 1, 1, 1, 1, 1, 1, 1, 1, 1, 1, 1, 1, 1, 2, 2, 2, 2, 3, 3, 4, 4, 4, 5, 6, 6, 7, 8, 9, 10, 11, 12, 13, 15, 16, 18, 20, 22, 24, 27, 30, 33, 37, 41, 45, 50, 55, 61, 68, 75, 83, 92, 102, 113, 125, 139, 153, 170, 188, 208, 230, 255, 282, 312, 345, 382, 423, 468, 518, 573, 634, 702, 777, 859, 951, 1052, 1164, 1288, 1426, 1578, 1746, 1932, 2137, 2365, 2617, 2896, 3204, 3545, 3923, 4341, 4803, 5315, 5881, 6507, 7200, 7967, 8815, 9754, 10793, 11942, 13214, 14621, 16178, 17901, 19807, 21917, 24251, 26833},
	15: {1, 1, 1, 1, 1, 1, 1, 1, 1, 1, 1, 1, 1, 1, 1, 1, 1, 1, 1, 1, 1, 1, 1, 1, 1, 1, 1, 2, 2, 2, 3, 3, 3, 4, 4, 5, 5, 6, 7, 7, 8, 9, 10, 11, 13, 14, 16, 18, 20, 22, 24, 27, 30, 34, 38, 42, 47, 52, 58, 64, 72, 80, 89, 98, 110, 122, 136, 151, 168, 186, 207, 231, 256, 285, 317, 352, 392, 436, 485, 539, 599, 666, 741, 823, 915, 1018, 1132, 1258, 1399, 1555, 1729, 1922, 2137, 2376, 2642, 2937, 3265, 3630, 4036, 4487, 4989, 5546, 6166, 6856, 7622, 8474, 9421, 10474, 11644, 12946, 14393, 16001, 17790, 19778, 21988, 24446, 27178, 30215, 33592, 37347, 41521},
	16: {1, 1, 1, 1, 1, 1, 1, 1, 1, 1, 1, 1, 1, 1, 1, 1, 1, 1, 1, 1, 1, 1, 1, 1, 1, 1, 1, 2, 2, 2, 2, 3, 3, 3, 4, 4, 5, 5, 6, 7, 7, 8, 9, 10, 12, 13, 14, 16, 18, 20, 22, 25, 27, 30, 34, 38, 42, 46, 51, 57, 63, 71, 78, 87, 97, 107, 119, 132, 147, 163, 181, 200, 222, 247, 274, 304, 337, 374, 415, 461, 511, 568, 630, 699, 776, 861, 955, 1060, 1176, 1305, 1448, 1606, 1782, 1978, 2194, 2435, 2702, 2998, 3326, 3691, 4095, 4544, 5042, 5595, 6208, 6888, 7643, 8480, 9410, 10441, 11585, 12854, 14263, 15825, 17559, 19483, 21618, 23987, 26615, 29532, 32767},
	32: {1, 1, 1, 1, 1, 1, 1, 1, 1, 1, 1, 1, 1, 1, 1, 1, 1, 1, 1, 1, 1, 1, 1, 1, 1, 1, 1, 1, 1, 1, 1, 2, 2, 2, 3, 3, 3, 4, 5, 5, 6, 7, 7, 8, 10, 11, 12, 14, 15, 17, 20, 22, 25, 28, 31, 35, 40, 45, 50, 57, 63, 71, 80, 90, 101, 114, 127, 143, 161, 181, 203, 228, 255, 287, 322, 362, 406, 456, 511, 574, 645, 724, 812, 912, 1023, 1149, 1290, 1448, 1625, 1824, 2047, 2298, 2580, 2896, 3250, 3649, 4095, 4597, 5160, 5792, 6501, 7298, 8191, 9195, 10321, 11585, 13003, 14596, 16383, 18390, 20642, 23170, 26007, 29192, 32767, 36780, 41285, 46340, 52015, 58385, 65535, 73561, 82570, 92681, 104031, 116771, 131071, 147123, 165140, 185363, 208063, 233543, 262143, 294246, 330280, 370727, 416127, 467087, 524287, 588493, 660561, 741455, 832255, 934175, 1048575, 1176986, 1321122, 1482910, 1664510, 1868350, 2097151, 2353973, 2642245, 2965820, 3329021, 3736700, 4194303, 4707947, 5284491, 5931641, 6658042},
	9:  {1, 1, 1, 1, 1, 1, 1, 1, 1, 1, 1, 1, 1, 1, 1, 1, 1, 1, 1, 1, 1, 1, 1, 1, 2, 2, 2, 2, 2, 3, 3, 3, 4, 4, 5, 5, 6, 7, 7, 8, 9, 10, 11, 12, 13, 15, 16, 18, 20, 22, 24, 27, 30, 33, 36, 40, 44, 48, 53, 59, 65, 71, 79, 87, 96, 105, 116, 128, 141, 155, 171, 188, 208, 229, 252, 277, 306, 337, 371, 408, 450},
}

func vWork(t *Tree[int, int], n int) {
	c := v.Ticks("cmp")
	tab := vBTMin[t.m]
	if tab == nil || c >= len(tab) {
		v.Assert(false, "C07:comparator-calls-beyond-table")
		return
	}
	v.Assert(n+1 >= tab[c], "C07:comparator-calls-within-documented-bound")
}

func VHPut() {
	t, root := vNewCfg()
	n := t.size
	k, x := v.Int("key"), v.Int("val")
	t.Put(k, x)
	vWork(t, n)
	VInv(t)
	vl.SeqPut(VPre(root, nil), VPost(&t.Root, nil, 0), k, x, "C01:put")
}

func VHRemove() {
	t, root := vNewCfg()
	n := t.size
	k := v.Int("key")
	t.Remove(k)
	vWork(t, n)
	VInv(t)
	pre := VPre(root, nil)
	if !vl.SeqRemove(pre, VPost(&t.Root, nil, 0), k, "C01:remove") {
		vl.Absent(pre, k, "C01:remove-absent-but-maybe-present")
	}
}

func VHGet() {
	t, root := vNewCfg()
	n := t.size
	k := v.Int("key")
	v.BeginOp(true, t)
	x, found := t.Get(k)
	vWork(t, n)
	node := t.GetNode(k)
	v.EndOp()
	pre := VPre(root, nil)
	vl.SeqSame(pre, VPost(&t.Root, nil, 0), "C18:get-unchanged")
	vl.GetCheck(pre, k, x, found)
	v.Assert(found == (node != nil), "C01:getnode")
}

func VHClear() {
	t, _ := vNewCfg()
	cmpBefore, m := t.Comparator, t.m
	t.Clear()
	v.Assert(t.Root == nil, "C15:clear-root")
	v.Assert(t.Size() == 0, "C15:clear-size")
	v.Assert(t.Empty(), "C15:clear-empty")
	v.Assert(len(t.Keys()) == 0, "C15:clear-keys")
	v.Assert(len(t.Values()) == 0, "C15:clear-values")
	v.Assert(t.Height() == 0, "C15:clear-height")
	v.Assert(v.SameObject(cmpBefore, t.Comparator), "C15:clear-keeps-comparator")
	v.Assert(t.m == m, "C15:clear-keeps-order")
	k, x := v.Int("key"), v.Int("val")
	t.Put(k, x)
	VInv(t)
	y, ok := t.Get(k)
	v.Assert(v.And(ok, y == x), "C15:clear-then-put-get")
	v.Assert(t.Size() == 1, "C15:clear-then-put-size")
}

// VHNew: the constructor panics exactly when the order is below 3 and otherwise yields an empty tree.
func VHNew() {
	m := v.IntIn("m", -1, v.CfgOr("M", 6))
	var t *Tree[int, int]
	panicked := v.ExpectPanic(func() { t = NewWith[int, int](v.Split(m, -1, 16), vl.Cmp) })
	v.Assert(panicked == (m < 3), "C17:new-panics-iff-order-below-3")
	if !panicked {
		VInv(t)
		v.Assert(t.Size() == 0, "C15:new-empty")
	}
}

func VHNav() {
	t, _ := vNewCfg()
	op := v.CfgOr("op", -1)
	if op < 0 {
		op = v.Split(v.IntIn("op", 2, 3), 2, 3)
	}
	var node *Node[int, int]
	hasK := false
	nk, nv := 0, 0
	v.BeginOp(true, t)
	switch op {
	case vl.NavLeft:
		node = t.Left()
		if k, ok := t.LeftKey().(int); ok {
			hasK, nk = true, k
		}
		if x, ok := t.LeftValue().(int); ok {
			nv = x
		}
		if node != nil {
			v.Assert(len(node.Entries) > 0, "C02:left-node-empty")
			v.Assert(v.And(hasK, node.Entries[0].Key == nk), "C02:leftkey-agrees-with-left")
		}
	case vl.NavRight:
		node = t.Right()
		if k, ok := t.RightKey().(int); ok {
			hasK, nk = true, k
		}
		if x, ok := t.RightValue().(int); ok {
			nv = x
		}
		if node != nil {
			v.Assert(len(node.Entries) > 0, "C02:right-node-empty")
			v.Assert(v.And(hasK, node.Entries[len(node.Entries)-1].Key == nk), "C02:rightkey-agrees-with-right")
		}
	}
	v.EndOp()
	v.Assert(hasK == (node != nil), "C02:key-iff-node")
	vl.NavCheck(op, 0, hasK, hasK, nk, nv, VPost(&t.Root, nil, 0))
}

// vPick chooses an arbitrary (node, entry) of the tree by a symbolic descent from the root.
func vPick(t *Tree[int, int]) (*Node[int, int], *Entry[int, int]) {
	n := t.Root
	if n == nil {
		v.Assume(false)
	}
	for {
		if len(n.Children) == 0 || v.Bool("stop") {
			j := v.Split(v.IntIn("j", 0, len(n.Entries)-1), 0, len(n.Entries)-1)
			return n, n.Entries[j]
		}
		c := v.Split(v.IntIn("c", 0, len(n.Children)-1), 0, len(n.Children)-1)
		n = n.Children[c]
	}
}

func VHIter() {
	t, _ := vNewCfg()
	op := v.CfgOr("op", -1)
	if op < 0 {
		op = v.Split(v.IntIn("op", 0, 5), 0, 5)
	}
	pos := v.Split(v.IntIn("pos", 0, 2), 0, 2)
	v.BeginOp(true, t)
	it := t.Iterator()
	xk := 0
	if pos == vl.PosBetween {
		n, e := vPick(t)
		it.node, it.entry, it.position = n, e, between
		xk = e.Key
	} else if pos == vl.PosEnd {
		it.End()
	}
	ok := false
	switch op {
	case vl.ItNext:
		ok = it.Next()
	case vl.ItPrev:
		ok = it.Prev()
	case vl.ItBegin:
		it.Begin()
	case vl.ItEnd:
		it.End()
	case vl.ItFirst:
		ok = it.First()
	case vl.ItLast:
		ok = it.Last()
	}
	r := it.entry
	hasR := r != nil && it.position == between
	if ok && hasR {
		v.Assert(v.And(it.Key() == r.Key, it.Value() == r.Value), "C08:key-value-of-position")
		v.Assert(it.Node() == it.node, "C08:node-of-position")
	}
	v.EndOp()
	rk, rv := 0, 0
	if hasR {
		rk, rv = r.Key, r.Value
	}
	vl.IterCheck(op, pos, xk, ok, hasR, rk, rv, int(it.position), VPost(&t.Root, nil, 0))
}

// VGSmall builds a tree by the library's own Put of n <= N arbitrary pairs (every insertion order and every
// coincidence of keys is a solver choice).
func VGSmall() *Tree[int, int] {
	n := v.Split(v.IntIn("n", 0, v.CfgOr("N", 3)), 0, 16)
	t := NewWith[int, int](v.CfgOr("m", 3), vl.Cmp)
	for i := 0; i < n; i++ {
		t.Put(v.Int("k"), v.Int("x"))
	}
	return t
}

// VHIterSmall: all ten iterator calls incl. NextTo/PrevTo with an arbitrary (uninterpreted) predicate, against the
// cursor model over Keys()/Values().
func VHIterSmall() {
	t := VGSmall()
	keys, vals := t.Keys(), t.Values()
	containers.VKeyIterStep(func() containers.IteratorWithKey[int, int] { return t.Iterator() }, keys, vals, t)
}

// VHKeysValues: Keys()/Values() list every pair exactly once, ascending, position aligned, and agree with Size() (C01, C02, C15).
func VHKeysValues() {
	t := VGSmall()
	VInv(t)
	v.BeginOp(true, t)
	keys, vals := t.Keys(), t.Values()
	v.EndOp()
	v.Assert(len(keys) == t.Size(), "C15,C01:len-keys-is-size")
	_ = t.Root.Size() // a B-tree node's Size() counts nodes, not keys: no property speaks about it; only totality (C17)
	v.Assert(len(vals) == t.Size(), "C15,C01:len-values-is-size")
	for i := 1; i < len(keys); i++ {
		v.Assert(vl.Less(keys[i-1], keys[i]), "C02,C01:keys-strictly-ascending")
	}
	if len(keys) == len(vals) {
		for i := range keys {
			x, ok := t.Get(keys[i])
			v.Assert(v.And(ok, x == vals[i]), "C01:values-position-aligned")
		}
	}
	q := v.Int("q")
	_, found := t.Get(q)
	listed := false
	for _, k := range keys {
		listed = v.Or(listed, vl.Equiv(k, q))
	}
	v.Assert(found == listed, "C01:keys-lists-exactly-the-live-keys")
}

// VHSnap: returned slices are snapshots, argument slices are copied, GetSortedValues leaves the container alone (C16).
func VHSnap() {
	c := VGSmall()
	containers.VSnapStep(containers.VSnap{C: c, Keys: c.Keys, Mutate: []func(){c.Clear, func() { c.Put(v.Int("mk"), v.Int("mv")) }, func() { c.Remove(v.Int("mk")) }}})
}

var _ = vl.Less

func vJSON(c *Tree[int, int]) containers.VJSON {
	return containers.VJSON{C: c, ToJSON: c.ToJSON, FromJSON: c.FromJSON,
		Marshal:   func() ([]byte, error) { return json.Marshal(c) },
		Unmarshal: func(data []byte) error { return json.Unmarshal(data, c) },
		Inv:       func() { VInv(c) },
		Step: func() {
			k, x := v.Int("sk"), v.Int("sx")
			c.Put(k, x)
			y, ok := c.Get(k)
			v.Assert(v.And(ok, y == x), "C12:put-after-load")
		},
		Fresh:  func() containers.VJSON { return vJSON(NewWith[int, int](c.m, vl.Cmp)) },
		Object: true, Keys: c.Keys, Get: c.Get, Ref: func(ks, xs []int) ([]int, []int) { return vl.SortPairs(vl.LastPerKey(ks, xs)) },
	}
}

// VHJSONRound: ToJSON / json.Marshal / FromJSON round trip from an arbitrary state (C11).
func VHJSONRound() {
	c := VGSmall()
	containers.VJSONRound(vJSON(c))
}

// VHJSONLoad: FromJSON of an arbitrary document into an arbitrary prior state (C12, C17).
func VHJSONLoad() {
	c := VGSmall()
	containers.VJSONLoad(vJSON(c))
}

// VHString: String() begins with the container's name and is read-only (C15, C18).
func VHString() {
	c := VGSmall()
	v.BeginOp(true, c)
	s := c.String()
	v.EndOp()
	v.Assert(strings.HasPrefix(s, "BTree"), "C15:string-begins-with-container-name")
}

// VHHistory: D operations in a row from the constructor (see VMapHistory).
func VHHistory() {
	t := NewWith[int, int](v.CfgOr("m", 3), vl.Cmp)
	if v.CfgOr("ctor", 0) == 1 { // the default-comparator constructor (cmp.Compare); only meaningful with cmp=0
		t = New[int, int](v.CfgOr("m", 3))
	}
	maps.VMapHistory(t, maps.VKind{Name: "BTree", SortedKeys: true, Inv: func() { VInv(t) }})
}

// VHAscHistory: n ascending Puts from the constructor, then D arbitrary Put/Remove steps (see VMapAscHistory).
func VHAscHistory() {
	t := NewWith[int, int](v.CfgOr("m", 3), vl.Cmp)
	if v.CfgOr("ctor", 0) == 1 { // the default-comparator constructor (cmp.Compare); only meaningful with cmp=0
		t = New[int, int](v.CfgOr("m", 3))
	}
	maps.VMapAscHistory(t, maps.VKind{Name: "BTree", SortedKeys: true, Inv: func() { VInv(t) }})
}

// vDeepCheck: whole-structure observers on a large tree of concrete shape and symbolic content.
func vDeepCheck(t *Tree[int, int], ek, ev []int) {
	VInv(t)
	v.BeginOp(true, t)
	keys, vals := t.Keys(), t.Values()
	v.EndOp()
	v.Assert(len(keys) == len(ek), "C01,C15:keys-length")
	v.Assert(len(vals) == len(ek), "C01,C15:values-length")
	if len(keys) == len(ek) && len(vals) == len(ek) {
		for i := range ek {
			v.Assert(keys[i] == ek[i], "C01,C02:keys-in-order")
			v.Assert(vals[i] == ev[i], "C01:values-position-aligned")
		}
	}
	v.Assert(t.Size() == len(ek), "C01,C15:size")
	// a full forward and a full backward pass of a fresh iterator
	v.BeginOp(true, t)
	it := t.Iterator()
	i := 0
	for it.Next() {
		if i < len(ek) {
			v.Assert(v.And(it.Key() == ek[i], it.Value() == ev[i]), "C08,C02:forward-iteration")
		}
		i++
	}
	v.Assert(i == len(ek), "C08:forward-iteration-count")
	v.Assert(!it.Next(), "C08:next-saturates-at-end")
	for it.Prev() {
		i--
		if i >= 0 && i < len(ek) {
			v.Assert(v.And(it.Key() == ek[i], it.Value() == ev[i]), "C08,C02:backward-iteration")
		}
	}
	v.Assert(i == 0, "C08:backward-iteration-count")
	v.EndOp()
}

func vDeepKeys(n int) ([]int, []int) {
	ek, ev := make([]int, n), make([]int, n)
	for i := 0; i < n; i++ {
		ek[i], ev[i] = v.Int("k"), v.Int("x")
		if i > 0 {
			v.Assume(vl.Less(ek[i-1], ek[i]))
		}
	}
	return ek, ev
}

// vUniform builds a subtree with `levels` levels in which every node holds e entries (e+1 children above the leaves).
func vUniform(parent *Node[int, int], levels, e int, seq *[]*Entry[int, int]) *Node[int, int] {
	n := &Node[int, int]{Parent: parent}
	for i := 0; i <= e; i++ {
		if levels > 1 {
			n.Children = append(n.Children, vUniform(n, levels-1, e, seq))
		}
		if i < e {
			en := &Entry[int, int]{}
			n.Entries = append(n.Entries, en)
			*seq = append(*seq, en)
		}
	}
	return n
}

// VHDeep: Keys/Values/full iteration/Height on the uniform B-tree of order m with L levels and e entries per node.
func VHDeep() {
	m, L, e := v.Cfg("m"), v.Cfg("L"), v.Cfg("e")
	var seq []*Entry[int, int]
	t := &Tree[int, int]{Comparator: vl.Cmp, m: m}
	t.Root = vUniform(nil, L, e, &seq)
	t.size = len(seq)
	ek, ev := vDeepKeys(len(seq))
	for i, en := range seq {
		en.Key, en.Value = ek[i], ev[i]
	}
	vDeepCheck(t, ek, ev)
	v.Assert(t.Height() == L, "C07:height-is-number-of-levels")
	if k, ok := t.LeftKey().(int); ok {
		v.Assert(k == ek[0], "C02:leftkey-is-least")
	} else {
		v.Assert(false, "C02:leftkey-missing")
	}
	if k, ok := t.RightKey().(int); ok {
		v.Assert(k == ek[len(ek)-1], "C02:rightkey-is-greatest")
	} else {
		v.Assert(false, "C02:rightkey-missing")
	}
}
