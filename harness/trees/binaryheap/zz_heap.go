package binaryheap

import (
	"strings"

	"encoding/json"
	"github.com/emirpasic/gods/v2/containers"
	"github.com/emirpasic/gods/v2/lists/arraylist"
	vl "github.com/emirpasic/gods/v2/zzvlib"
	v "github.com/emirpasic/gods/v2/zzvsup"
)

// VGHeap is an arbitrary heap of n <= N elements: an ArrayList (any spare capacity <= S) whose cells are
// heap-ordered under the configured comparator (parent never after child).
func VGHeap() (*Heap[int], []int) {
	l, cells := arraylist.VGList()
	for i := 1; i < len(cells); i++ {
		v.Assume(!vl.Less(cells[i], cells[(i-1)/2]))
	}
	return &Heap[int]{list: l, Comparator: vl.Cmp}, cells
}

// VInv: heap order over the current cells.
func VInv(h *Heap[int]) []int {
	v.Assert(h.list != nil, "inv-list-nil")
	cells := h.list.Values()
	for i := 1; i < len(cells); i++ {
		v.Assert(!vl.Less(cells[i], cells[(i-1)/2]), "C06:inv-heap-order")
	}
	return cells
}

func vCount(s []int, x int) int {
	c := 0
	for i := 0; i < len(s); i++ {
		c = c + v.Ite(s[i] == x, 1, 0)
	}
	return c
}

const (
	VOpPush1 = iota
	VOpPushK
	VOpPop
	VOpPeek
	VOpClear
	VOpValues
	VOpString
	VOpCount
)

// VHeapLike lets the priority queue reuse the step harness.
type VHeapLike struct {
	Push   func(xs ...int)
	Pop    func() (int, bool)
	Peek   func() (int, bool)
	Clear  func()
	Values func() []int
	Size   func() int
	Empty  func() bool
	String func() string
	Heap   *Heap[int]
	Name   string
}

// VHeapStep: one operation on an arbitrary heap (C06): heap order kept, the returned element is one that no
// contained element precedes, and the multiset of contents changes by exactly the pushed / popped elements
// (probe-count obligation: for every value x, #post(x) = #pre(x) +/- [x pushed/popped]).
func VHeapStep(q VHeapLike, pre []int) []int {
	op := v.CfgOr("op", -1)
	if op < 0 {
		op = v.Split(v.IntIn("op", 0, VOpCount-1), 0, VOpCount-1)
	}
	probe := v.Int("probe")
	delta := 0 // expected #post(probe) - #pre(probe)
	switch op {
	case VOpPush1:
		x := v.Int("x")
		q.Push(x)
		delta = v.Ite(x == probe, 1, 0)
	case VOpPushK:
		k := v.Split(v.IntIn("k", 0, v.CfgOr("K", 3)), 0, 8)
		if k == 1 {
			k = 0
		}
		xs := make([]int, k)
		for j := range xs {
			xs[j] = v.Int("x")
			delta = delta + v.Ite(xs[j] == probe, 1, 0)
		}
		q.Push(xs...)
	case VOpPop:
		r, ok := q.Pop()
		v.Assert(ok == (len(pre) > 0), "C06:pop-ok")
		if len(pre) == 0 {
			v.Assert(r == 0, "C06:pop-empty-zero")
		} else {
			v.Assert(vCount(pre, r) > 0, "C06:pop-returns-an-element")
			for _, c := range pre {
				v.Assert(!vl.Less(c, r), "C06:pop-not-a-minimum")
			}
			delta = 0 - v.Ite(r == probe, 1, 0)
		}
	case VOpPeek:
		v.BeginOp(true, q.Heap)
		r, ok := q.Peek()
		v.EndOp()
		v.Assert(ok == (len(pre) > 0), "C06:peek-ok")
		if len(pre) == 0 {
			v.Assert(r == 0, "C06:peek-empty-zero")
		} else {
			v.Assert(vCount(pre, r) > 0, "C06:peek-returns-an-element")
			for _, c := range pre {
				v.Assert(!vl.Less(c, r), "C06:peek-not-a-minimum")
			}
		}
	case VOpClear:
		q.Clear()
		delta = 0 - vCount(pre, probe)
	case VOpValues:
		v.BeginOp(true, q.Heap)
		vals := q.Values()
		v.EndOp()
		v.Assert(len(vals) == len(pre), "C06,C15:values-length")
		v.Assert(vCount(vals, probe) == vCount(pre, probe), "C06:values-permutation")
		if len(vals) > 0 && len(vals) == len(pre) {
			p, _ := q.Peek()
			v.Assert(vals[0] == p, "C06:values-first-is-peek")
		}
	case VOpString:
		v.BeginOp(true, q.Heap)
		str := q.String()
		v.EndOp()
		v.Assert(strings.HasPrefix(str, q.Name), "C15:string-begins-with-container-name")
	}
	post := VInv(q.Heap)
	v.Assert(vCount(post, probe) == vCount(pre, probe)+delta, "C06:multiset")
	sz := q.Size()
	v.Assert(sz == len(post), "C06,C15:size")
	v.Assert(sz >= 0, "C15:size-nonneg")
	v.Assert(q.Empty() == (sz == 0), "C15:empty")
	return post
}

// VHeapHistory: D operations in a row from a freshly constructed heap.
func VHeapHistory(q VHeapLike) {
	var cells []int
	D := v.CfgOr("D", 3)
	for i := 0; i < D; i++ {
		cells = VHeapStep(q, cells)
	}
}

func VHHistory() {
	h := NewWith[int](vl.Cmp)
	if v.CfgOr("ctor", 0) == 1 { // the default-comparator constructor (cmp.Compare); only meaningful with cmp=0
		h = New[int]()
	}
	VHeapHistory(VHeapLike{Push: h.Push, Pop: h.Pop, Peek: h.Peek, Clear: h.Clear, Values: h.Values, Size: h.Size, Empty: h.Empty, String: h.String, Heap: h, Name: "BinaryHeap"})
}

func VHHeapStep() {
	h, pre := VGHeap()
	VHeapStep(VHeapLike{Push: h.Push, Pop: h.Pop, Peek: h.Peek, Clear: h.Clear, Values: h.Values, Size: h.Size, Empty: h.Empty, String: h.String, Heap: h, Name: "BinaryHeap"}, pre)
}

// VHIter: the heap iterator is a cursor over Values() (each level sorted through a temporary heap).
func VHIter() {
	h, cells := VGHeap()
	seq := h.Values()
	// Values() is itself produced through the iterator: anchor it to the cells (a permutation of the contents)
	probe := v.Int("probe")
	v.Assert(len(seq) == len(cells), "C06,C08,C15:values-length")
	v.Assert(vCount(seq, probe) == vCount(cells, probe), "C06,C08:values-permutation")
	containers.VIterStep(func() containers.IteratorWithIndex[int] { return h.Iterator() }, seq, h)
}

// VHSnap: returned slices are snapshots, argument slices are copied, GetSortedValues leaves the container alone (C16).
func VHSnap() {
	c, _ := VGHeap()
	containers.VSnapStep(containers.VSnap{C: c, Mutate: []func(){c.Clear, func() { c.Push(v.Int("m")) }, func() { c.Pop() }}, AddArgs: []func([]int){func(a []int) { c.Push(a...) }}})
}

var _ = vl.Less

func vJSON(c *Heap[int]) containers.VJSON {
	return containers.VJSON{C: c, ToJSON: c.ToJSON, FromJSON: c.FromJSON,
		Marshal: func() ([]byte, error) { return json.Marshal(c) },
		Unmarshal: func(data []byte) error { return json.Unmarshal(data, c) },
		Inv:     func() { VInv(c) },
		Step:    func() { c.Push(v.Int("sx")); VInv(c) },
		Fresh:   func() containers.VJSON { return vJSON(NewWith[int](vl.Cmp)) },
		Multiset: true, Ref: func(ks, xs []int) ([]int, []int) { return nil, xs },
		Drain: func() []int { var out []int; for { x, ok := c.Pop(); if !ok { return out }; out = append(out, x) } },
	}
}

// VHJSONRound: ToJSON / json.Marshal / FromJSON round trip from an arbitrary state (C11).
func VHJSONRound() {
	c, _ := VGHeap()
	containers.VJSONRound(vJSON(c))
}

// VHJSONLoad: FromJSON of an arbitrary document into an arbitrary prior state (C12, C17).
func VHJSONLoad() {
	c, _ := VGHeap()
	containers.VJSONLoad(vJSON(c))
}

// VHHeapBig: one Push (single or bulk) or Pop on a LARGE heap (n up to N, far beyond the arbitrary-heap bound of
// VHHeapStep). The cells are any ascending sequence under the comparator - a sorted array is a heap, and every comparison
// among old cells is then decided, so only the pushed values fork. Level boundaries, size-dependent fast paths and
// the bulk-push heapify are exercised at every size lo..N with arbitrary pushed values.
func VHHeapBig() {
	n := v.Split(v.IntIn("n", v.CfgOr("lo", 0), v.CfgOr("N", 32)), 0, 1024)
	cells := make([]int, n)
	for i := range cells {
		cells[i] = v.Int("c")
		if i > 0 {
			v.Assume(!vl.Less(cells[i], cells[i-1]))
		}
	}
	h := &Heap[int]{list: arraylist.New[int](cells...), Comparator: vl.Cmp}
	v.Fresh()
	VHeapStep(VHeapLike{Push: h.Push, Pop: h.Pop, Peek: h.Peek, Clear: h.Clear, Values: h.Values, Size: h.Size, Empty: h.Empty, String: h.String, Heap: h, Name: "BinaryHeap"}, cells)
}
