package redblacktree

import (
	"github.com/emirpasic/gods/v2/maps"
	"strings"
	"encoding/json"
	"github.com/emirpasic/gods/v2/containers"
	vl "github.com/emirpasic/gods/v2/zzvlib"
	v "github.com/emirpasic/gods/v2/zzvsup"
)

// VSum summarises an unexpanded subtree: every valid red-black subtree with this parent, key range,
// black height, remaining height and size. It doubles as the record of the pre-state's in-order structure.
type VSum[V any] struct {
	parent       *Node[int, V]
	hasLo, hasHi bool
	lo, hi       int
	bh, h        int
	redOK        bool
	size         int
	newV         func() V

	forced, exp bool
	k0, v0      int
	l, r        *VSum[V]
}

func VInt[V any](x V) int {
	if i, ok := any(x).(int); ok {
		return i
	}
	return 0
}

func vMkSum[V any](parent *Node[int, V], hasLo bool, lo int, hasHi bool, hi int, bh int, h int, redOK bool, newV func() V) *VSum[V] {
	s := &VSum[V]{parent: parent, hasLo: hasLo, lo: lo, hasHi: hasHi, hi: hi, bh: bh, h: h, redOK: redOK, newV: newV}
	s.size = v.IntIn("sz", 0, (1<<h)-1)
	v.Assume(v.And(s.bh >= 0, s.bh <= h))
	min := 0
	for b := 1; b <= h; b++ {
		min = min + v.Ite(s.bh >= b, 1<<(b-1), 0)
	}
	v.Assume(s.size >= min)
	return s
}

func vGen[V any](s *VSum[V]) *Node[int, V] {
	s.forced = true
	if s.h == 0 || s.size == 0 {
		v.Assume(s.size == 0)
		v.Assume(s.bh == 0)
		return nil
	}
	n := &Node[int, V]{Parent: s.parent}
	n.Key = v.Int("k")
	n.Value = s.newV()
	if s.hasLo {
		v.Assume(vl.Less(s.lo, n.Key))
	}
	if s.hasHi {
		v.Assume(vl.Less(n.Key, s.hi))
	}
	c := v.Bool("c") // true = black
	n.color = color(c)
	v.Assume(v.Or(s.redOK, c))
	cb := s.bh - v.Ite(c, 1, 0)
	v.Assume(cb >= 0)
	ls := vMkSum(n, s.hasLo, s.lo, true, n.Key, cb, s.h-1, c, s.newV)
	rs := vMkSum(n, true, n.Key, s.hasHi, s.hi, cb, s.h-1, c, s.newV)
	n.Left = v.Lazy(vGen[V], ls)
	n.Right = v.Lazy(vGen[V], rs)
	v.Assume(s.size == 1+ls.size+rs.size)
	s.exp, s.k0, s.v0, s.l, s.r = true, n.Key, VInt(n.Value), ls, rs
	return n
}

// VNewTree is an arbitrary valid red-black tree of height <= H (every shape, colouring, key set at once).
func VNewTree[V any](H int, newV func() V) (*Tree[int, V], *VSum[V]) {
	t := &Tree[int, V]{Comparator: vl.Cmp}
	root := vMkSum[V](nil, false, 0, false, 0, v.IntIn("bh", 0, H), H, false, newV)
	t.Root = v.Lazy(vGen[V], root)
	t.size = root.size
	return t, root
}

func vNewInt() int { return v.Int("v") }

// VPre lists the pre-state in order: forced nodes with their original key/value, unexpanded subtrees as blocks.
func VPre[V any](s *VSum[V], out []vl.Item) []vl.Item {
	if !s.forced {
		return append(out, vl.Item{T: s})
	}
	if !s.exp {
		return out
	}
	out = VPre(s.l, out)
	out = append(out, vl.Item{K: s.k0, V: s.v0})
	return VPre(s.r, out)
}

// VPost lists the current tree in order without expanding anything.
func VPost[V any](cell **Node[int, V], out []vl.Item, depth int) []vl.Item {
	if s := v.Peek[Node[int, V], VSum[V]](cell); s != nil {
		return append(out, vl.Item{T: s})
	}
	n := *cell
	if n == nil {
		return out
	}
	if depth > 40 {
		v.Assert(false, "inv-cyclic-or-too-deep")
		return out
	}
	out = VPost(&n.Left, out, depth+1)
	out = append(out, vl.Item{K: n.Key, V: VInt(n.Value)})
	return VPost(&n.Right, out, depth+1)
}

// vCheck asserts the red-black invariant below cell and returns (black height, size, min path, max path).
func vCheck[V any](cell **Node[int, V], parent *Node[int, V], hasLo bool, lo int, hasHi bool, hi int, redOK bool, depth int) (bh, size, minP, maxP int) {
	if s := v.Peek[Node[int, V], VSum[V]](cell); s != nil && s.parent == parent {
		if hasLo {
			v.Assert(s.hasLo, "inv-t-haslo")
			if s.hasLo {
				v.Assert(!vl.Less(s.lo, lo), "C01,C02,C07:inv-thunk-lo")
			}
		}
		if hasHi {
			v.Assert(s.hasHi, "inv-t-hashi")
			if s.hasHi {
				v.Assert(!vl.Less(hi, s.hi), "C01,C02,C07:inv-thunk-hi")
			}
		}
		v.Assert(v.Or(!s.redOK, redOK), "C01,C07:inv-thunk-red")
		return s.bh, s.size, s.bh, 2*s.bh + v.Ite(s.redOK, 1, 0)
	}
	n := *cell
	if n == nil {
		return 0, 0, 0, 0
	}
	if depth > 40 {
		v.Assert(false, "inv-cyclic-or-too-deep")
		return 0, 0, 0, 0
	}
	v.Assert(n.Parent == parent, "C01,C07:inv-parent")
	if hasLo {
		v.Assert(vl.Less(lo, n.Key), "C01,C02:inv-order-lo")
	}
	if hasHi {
		v.Assert(vl.Less(n.Key, hi), "C01,C02:inv-order-hi")
	}
	isBlack := bool(n.color)
	v.Assert(v.Or(isBlack, redOK), "C01,C07:inv-red-red")
	bl, sl, mnl, mxl := vCheck(&n.Left, n, hasLo, lo, true, n.Key, isBlack, depth+1)
	br, sr, mnr, mxr := vCheck(&n.Right, n, true, n.Key, hasHi, hi, isBlack, depth+1)
	v.Assert(bl == br, "C01,C07:inv-black-height")
	return bl + v.Ite(isBlack, 1, 0), 1 + sl + sr, 1 + v.Ite(mnl <= mnr, mnl, mnr), 1 + v.Ite(mxl >= mxr, mxl, mxr)
}

// VInv asserts the whole-tree invariant (documented shape, C07) and Size() = number of nodes.
func VInv[V any](t *Tree[int, V]) {
	_, size, minP, maxP := vCheck(&t.Root, nil, false, 0, false, 0, false, 0)
	v.Assert(t.size == size, "C01,C07,C15:inv-size")
	v.Assert(t.Size() == size, "C01,C07,C15:size")
	v.Assert(t.Empty() == (size == 0), "C15:empty")
	v.Assert(size >= 0, "C15:size-nonneg")
	v.Assert(maxP <= 2*minP, "C07:path-ratio")
}

func vWork(n int) {
	c := v.Ticks("cmp")
	v.Assert(n+1 >= vl.RBMinNPlus1(c), "C07:comparator-calls-within-2log2(n+1)+2")
}

func VHPut() {
	t, root := VNewTree(v.Cfg("H"), vNewInt)
	n := t.size
	k, x := v.Int("key"), v.Int("val")
	t.Put(k, x)
	vWork(n)
	VInv(t)
	vl.SeqPut(VPre(root, nil), VPost(&t.Root, nil, 0), k, x, "C01:put")
}

func VHRemove() {
	t, root := VNewTree(v.Cfg("H"), vNewInt)
	n := t.size
	k := v.Int("key")
	t.Remove(k)
	vWork(n)
	VInv(t)
	pre := VPre(root, nil)
	if !vl.SeqRemove(pre, VPost(&t.Root, nil, 0), k, "C01:remove") {
		vl.Absent(pre, k, "C01:remove-absent-but-maybe-present")
	}
}

func VHGet() {
	t, root := VNewTree(v.Cfg("H"), vNewInt)
	n := t.size
	k := v.Int("key")
	v.BeginOp(true, t)
	x, found := t.Get(k)
	vWork(n)
	node := t.GetNode(k)
	v.EndOp()
	pre := VPre(root, nil)
	vl.SeqSame(pre, VPost(&t.Root, nil, 0), "C18:get-unchanged")
	vl.GetCheck(pre, k, x, found)
	v.Assert(found == (node != nil), "C01:getnode")
	if node != nil {
		v.Assert(v.And(vl.Equiv(node.Key, k), node.Value == x), "C01:getnode-value")
	}
}

func VHClear() {
	t, _ := VNewTree(v.Cfg("H"), vNewInt)
	cmpBefore := t.Comparator
	t.Clear()
	VInv(t)
	v.Assert(t.Root == nil, "C15:clear-root")
	v.Assert(t.Size() == 0, "C15:clear-size")
	v.Assert(t.Empty(), "C15:clear-empty")
	v.Assert(len(t.Keys()) == 0, "C15:clear-keys")
	v.Assert(len(t.Values()) == 0, "C15:clear-values")
	v.Assert(v.SameObject(cmpBefore, t.Comparator), "C15:clear-keeps-comparator")
	// behaves like a fresh tree: one Put gives the one-element tree
	k, x := v.Int("key"), v.Int("val")
	t.Put(k, x)
	VInv(t)
	y, ok := t.Get(k)
	v.Assert(v.And(ok, y == x), "C15:clear-then-put-get")
	v.Assert(t.Size() == 1, "C15:clear-then-put-size")
}

func (s *VSum[V]) VOutside(hasA bool, a int, hasB bool, b int) bool {
	ok := s.size == 0
	if hasA && s.hasHi {
		ok = v.Or(ok, !vl.Less(a, s.hi))
	}
	if hasB && s.hasLo {
		ok = v.Or(ok, !vl.Less(s.lo, b))
	}
	return ok
}

// VHNav: Floor / Ceiling / Left / Right on an arbitrary tree with an arbitrary probe key (C02), read-only (C18).
func VHNav() {
	t, _ := VNewTree(v.Cfg("H"), vNewInt)
	op := v.CfgOr("op", -1)
	if op < 0 {
		op = v.Split(v.IntIn("op", 0, 3), 0, 3)
	}
	q := v.Int("q")
	var node *Node[int, int]
	found := false
	v.BeginOp(true, t)
	switch op {
	case 0:
		node, found = t.Floor(q)
	case 1:
		node, found = t.Ceiling(q)
	case 2:
		node = t.Left()
		found = node != nil
	case 3:
		node = t.Right()
		found = node != nil
	}
	v.EndOp()
	items := VPost(&t.Root, nil, 0)
	nk, nv := 0, 0
	if node != nil {
		nk, nv = node.Key, node.Value
	}
	vl.NavCheck(op, q, found, node != nil, nk, nv, items)
}

// vPick chooses an arbitrary node of the tree by a symbolic descent from the root.
func vPick[V any](t *Tree[int, V]) *Node[int, V] {
	n := t.Root
	if n == nil {
		v.Assume(false)
	}
	for {
		if v.Bool("stop") {
			return n
		}
		var c *Node[int, V]
		if v.Bool("goleft") {
			c = n.Left
		} else {
			c = n.Right
		}
		if c == nil {
			v.Assume(false)
		}
		n = c
	}
}

// VHIter: one iterator call from an arbitrary cursor state (begin, end, or at an arbitrary node) (C08, C02).
func VHIter() {
	t, _ := VNewTree(v.Cfg("H"), vNewInt)
	op := v.CfgOr("op", -1)
	if op < 0 {
		op = v.Split(v.IntIn("op", 0, 5), 0, 5)
	}
	pos := v.Split(v.IntIn("pos", 0, 2), 0, 2)
	v.BeginOp(true, t)
	it := t.Iterator()
	var x *Node[int, int]
	if pos == 1 {
		x = vPick(t)
		it = t.IteratorAt(x)
	} else if pos == 2 {
		it.End()
	}
	xk := 0
	if x != nil {
		xk = x.Key
	}
	ok := false
	switch op {
	case vl.ItNext:
		ok = it.Next()
	case vl.ItPrev:
		ok = it.Prev()
	case vl.ItBegin:
		it.Begin()
	case vl.ItEnd:
		it.End()
	case vl.ItFirst:
		ok = it.First()
	case vl.ItLast:
		ok = it.Last()
	}
	r := it.Node()
	if ok && r != nil {
		v.Assert(v.And(it.Key() == r.Key, it.Value() == r.Value), "C08:key-value-of-position")
	}
	v.EndOp()
	rk, rv := 0, 0
	if r != nil {
		rk, rv = r.Key, r.Value
	}
	vl.IterCheck(op, pos, xk, ok, r != nil, rk, rv, int(it.position), VPost(&t.Root, nil, 0))
}

// VGSmall builds a tree by the library's own Put of n <= N arbitrary pairs (every insertion order and every
// coincidence of keys is a solver choice).
func VGSmall() *Tree[int, int] {
	n := v.Split(v.IntIn("n", 0, v.CfgOr("N", 3)), 0, 16)
	t := NewWith[int, int](vl.Cmp)
	for i := 0; i < n; i++ {
		t.Put(v.Int("k"), v.Int("x"))
	}
	return t
}

// VHIterSmall: all ten iterator calls incl. NextTo/PrevTo with an arbitrary (uninterpreted) predicate, against the
// cursor model over Keys()/Values().
func VHIterSmall() {
	t := VGSmall()
	keys, vals := t.Keys(), t.Values()
	containers.VKeyIterStep(func() containers.IteratorWithKey[int, int] { return t.Iterator() }, keys, vals, t)
}

// VHKeysValues: Keys()/Values() list every pair exactly once, ascending, position aligned, and agree with Size() (C01, C02, C15).
func VHKeysValues() {
	t := VGSmall()
	VInv(t)
	v.BeginOp(true, t)
	keys, vals := t.Keys(), t.Values()
	v.EndOp()
	v.Assert(len(keys) == t.Size(), "C15,C01:len-keys-is-size")
	v.Assert(t.Root.Size() == t.Size(), "C07,C15:node-count-is-size")
	v.Assert(len(vals) == t.Size(), "C15,C01:len-values-is-size")
	for i := 1; i < len(keys); i++ {
		v.Assert(vl.Less(keys[i-1], keys[i]), "C02,C01:keys-strictly-ascending")
	}
	if len(keys) == len(vals) {
		for i := range keys {
			x, ok := t.Get(keys[i])
			v.Assert(v.And(ok, x == vals[i]), "C01:values-position-aligned")
		}
	}
	q := v.Int("q")
	_, found := t.Get(q)
	listed := false
	for _, k := range keys {
		listed = v.Or(listed, vl.Equiv(k, q))
	}
	v.Assert(found == listed, "C01:keys-lists-exactly-the-live-keys")
}

// VHSnap: returned slices are snapshots, argument slices are copied, GetSortedValues leaves the container alone (C16).
func VHSnap() {
	c := VGSmall()
	containers.VSnapStep(containers.VSnap{C: c, Keys: c.Keys, Mutate: []func(){c.Clear, func() { c.Put(v.Int("mk"), v.Int("mv")) }, func() { c.Remove(v.Int("mk")) }}})
}

var _ = vl.Less

func vJSON(c *Tree[int, int]) containers.VJSON {
	return containers.VJSON{C: c, ToJSON: c.ToJSON, FromJSON: c.FromJSON,
		Marshal: func() ([]byte, error) { return json.Marshal(c) },
		Unmarshal: func(data []byte) error { return json.Unmarshal(data, c) },
		Inv:     func() { VInv(c) },
		Step:    func() { k, x := v.Int("sk"), v.Int("sx"); c.Put(k, x); y, ok := c.Get(k); v.Assert(v.And(ok, y == x), "C12:put-after-load") },
		Fresh:   func() containers.VJSON { return vJSON(NewWith[int, int](vl.Cmp)) },
		Object: true, Keys: c.Keys, Get: c.Get, Ref: func(ks, xs []int) ([]int, []int) { return vl.SortPairs(vl.LastPerKey(ks, xs)) },
	}
}

// VHJSONRound: ToJSON / json.Marshal / FromJSON round trip from an arbitrary state (C11).
func VHJSONRound() {
	c := VGSmall()
	containers.VJSONRound(vJSON(c))
}

// VHJSONLoad: FromJSON of an arbitrary document into an arbitrary prior state (C12, C17).
func VHJSONLoad() {
	c := VGSmall()
	containers.VJSONLoad(vJSON(c))
}

// VHString: String() begins with the container's name and is read-only (C15, C18).
func VHString() {
	c := VGSmall()
	v.BeginOp(true, c)
	s := c.String()
	v.EndOp()
	v.Assert(strings.HasPrefix(s, "RedBlackTree"), "C15:string-begins-with-container-name")
}

// VHHistory: D operations in a row from the constructor (see VMapHistory).
func VHHistory() {
	t := NewWith[int, int](vl.Cmp)
	if v.CfgOr("ctor", 0) == 1 { // the default-comparator constructor (cmp.Compare); only meaningful with cmp=0
		t = New[int, int]()
	}
	maps.VMapHistory(t, maps.VKind{Name: "RedBlackTree", SortedKeys: true, Inv: func() { VInv(t) }})
}

// VHAscHistory: n ascending Puts from the constructor, then D arbitrary Put/Remove steps (see VMapAscHistory).
func VHAscHistory() {
	t := NewWith[int, int](vl.Cmp)
	if v.CfgOr("ctor", 0) == 1 { // the default-comparator constructor (cmp.Compare); only meaningful with cmp=0
		t = New[int, int]()
	}
	maps.VMapAscHistory(t, maps.VKind{Name: "RedBlackTree", SortedKeys: true, Inv: func() { VInv(t) }})
}

// vDeepCheck: whole-structure observers on a large tree of concrete shape and symbolic content.
func vDeepCheck(t *Tree[int, int], ek, ev []int) {
	VInv(t)
	v.BeginOp(true, t)
	keys, vals := t.Keys(), t.Values()
	v.EndOp()
	v.Assert(len(keys) == len(ek), "C01,C15:keys-length")
	v.Assert(len(vals) == len(ek), "C01,C15:values-length")
	if len(keys) == len(ek) && len(vals) == len(ek) {
		for i := range ek {
			v.Assert(keys[i] == ek[i], "C01,C02:keys-in-order")
			v.Assert(vals[i] == ev[i], "C01:values-position-aligned")
		}
	}
	v.Assert(t.Size() == len(ek), "C01,C15:size")
	// a full forward and a full backward pass of a fresh iterator
	v.BeginOp(true, t)
	it := t.Iterator()
	i := 0
	for it.Next() {
		if i < len(ek) {
			v.Assert(v.And(it.Key() == ek[i], it.Value() == ev[i]), "C08,C02:forward-iteration")
		}
		i++
	}
	v.Assert(i == len(ek), "C08:forward-iteration-count")
	v.Assert(!it.Next(), "C08:next-saturates-at-end")
	for it.Prev() {
		i--
		if i >= 0 && i < len(ek) {
			v.Assert(v.And(it.Key() == ek[i], it.Value() == ev[i]), "C08,C02:backward-iteration")
		}
	}
	v.Assert(i == 0, "C08:backward-iteration-count")
	v.EndOp()
}

func vDeepKeys(n int) ([]int, []int) {
	ek, ev := make([]int, n), make([]int, n)
	for i := 0; i < n; i++ {
		ek[i], ev[i] = v.Int("k"), v.Int("x")
		if i > 0 {
			v.Assume(vl.Less(ek[i-1], ek[i]))
		}
	}
	return ek, ev
}

func vPerfect(parent *Node[int, int], h int, seq *[]*Node[int, int]) *Node[int, int] {
	if h == 0 {
		return nil
	}
	n := &Node[int, int]{Parent: parent, color: black}
	n.Left = vPerfect(n, h-1, seq)
	*seq = append(*seq, n)
	n.Right = vPerfect(n, h-1, seq)
	return n
}

// vSkew is the DEEPEST red-black tree for its size: black height bh, one spine alternating black/red (height 2*bh), every
// subtree off the spine perfect and all black. side 0: spine to the left, 1: to the right.
func vSkew(parent *Node[int, int], bh int, side int, seq *[]*Node[int, int]) *Node[int, int] {
	if bh == 0 {
		return nil
	}
	b := &Node[int, int]{Parent: parent, color: black}
	r := &Node[int, int]{Parent: b, color: red}
	if side == 0 {
		r.Left = vSkew(r, bh-1, side, seq)
		*seq = append(*seq, r)
		r.Right = vPerfect(r, bh-1, seq)
		b.Left = r
		*seq = append(*seq, b)
		b.Right = vPerfect(b, bh-1, seq)
	} else {
		b.Left = vPerfect(b, bh-1, seq)
		*seq = append(*seq, b)
		b.Right = r
		r.Left = vPerfect(r, bh-1, seq)
		*seq = append(*seq, r)
		r.Right = vSkew(r, bh-1, side, seq)
	}
	return b
}

// VHDeep: Keys/Values/full iteration on the perfect all-black tree of height H (2^H - 1 nodes) or, with shape=1/2, on
// the deepest red-black tree of black height H (height 2H, spine left/right); symbolic keys and values.
func VHDeep() {
	H := v.Cfg("H")
	var seq []*Node[int, int]
	t := &Tree[int, int]{Comparator: vl.Cmp}
	if sh := v.CfgOr("shape", 0); sh > 0 {
		t.Root = vSkew(nil, H, sh-1, &seq)
	} else {
		t.Root = vPerfect(nil, H, &seq)
	}
	t.size = len(seq)
	ek, ev := vDeepKeys(len(seq))
	for i, n := range seq {
		n.Key, n.Value = ek[i], ev[i]
	}
	vDeepCheck(t, ek, ev)
	if len(seq) > 0 {
		v.Assert(t.Left() == seq[0], "C02:left-is-least")
		v.Assert(t.Right() == seq[len(seq)-1], "C02:right-is-greatest")
	}
}
