package maps

import (
	"strings"

	vl "github.com/emirpasic/gods/v2/zzvlib"
	v "github.com/emirpasic/gods/v2/zzvsup"
)

const (
	VOpPut = iota
	VOpRemove
	VOpGet
	VOpClear
	VOpGetKey
	VOpObservers
	VOpString
	VOpCount
)

// VKind describes the map under test to the shared step harness.
type VKind struct {
	Ordered bool                    // Keys()/Values() in insertion order, position aligned (LinkedHashMap)
	Sorted  bool                    // Keys() ascending by key, Values() ascending by value (TreeBidiMap)
	SortedKeys bool                 // Keys() ascending, Values() position aligned (the three trees, TreeMap)
	ValDesc bool                    // Sorted: the value comparator is the reversed natural order
	Bidi    bool                    // one-to-one: Put also drops the pair that held the value (C10)
	GetKey  func(x int) (int, bool) // bidi only
	Inv     func()
	Name    string // what String() begins with
}

func vIdx(seq []int, x int) int { // index of x in seq or -1, as a term
	r := -1
	for i := len(seq) - 1; i >= 0; i-- {
		r = v.Ite(seq[i] == x, i, r)
	}
	return r
}

// vIdxK: index of the key equivalent to x under the configured key comparator (== for the hash maps).
func vIdxK(seq []int, x int) int {
	r := -1
	for i := len(seq) - 1; i >= 0; i-- {
		r = v.Ite(vl.Equiv(seq[i], x), i, r)
	}
	return r
}

func vCountK(s []int, x int) int {
	c := 0
	for i := 0; i < len(s); i++ {
		c = c + v.Ite(vl.Equiv(s[i], x), 1, 0)
	}
	return c
}

func vDrop(keys, vals []int, i int) ([]int, []int) {
	nk := append(append([]int{}, keys[:i]...), keys[i+1:]...)
	nv := append(append([]int{}, vals[:i]...), vals[i+1:]...)
	return nk, nv
}

func vCount(s []int, x int) int {
	c := 0
	for i := 0; i < len(s); i++ {
		c = c + v.Ite(s[i] == x, 1, 0)
	}
	return c
}

// vModelPut is the reference model of Put: overwrite in place / append; bidirectional maps first drop both old pairs.
func vModelPut(keys, vals []int, k, x int, kind VKind) ([]int, []int) {
	wk, wv := append([]int{}, keys...), append([]int{}, vals...)
	if kind.Bidi {
		if i := v.Split(vIdxK(wk, k), -1, len(wk)-1); i >= 0 {
			wk, wv = vDrop(wk, wv, i)
		}
		if i := v.Split(vIdx(wv, x), -1, len(wv)-1); i >= 0 {
			wk, wv = vDrop(wk, wv, i)
		}
		wk, wv = append(wk, k), append(wv, x)
	} else if i := v.Split(vIdxK(wk, k), -1, len(wk)-1); i >= 0 {
		wv[i] = x
		wk[i] = k // the retained representative of equivalent keys is not specified; keys are compared up to equivalence // in place: the key keeps its position (C09)
	} else {
		wk, wv = append(wk, k), append(wv, x)
	}
	return wk, wv
}

// vLookup: Get of an arbitrary probe against the model.
func vLookup(m Map[int, int], wk, wv []int, tag string) {
	q := v.Int(tag)
	x, found := m.Get(q)
	i := vIdxK(wk, q)
	v.Assert(found == (i >= 0), "C01,C10:lookup-after-found")
	if i >= 0 {
		v.Assert(x == wv[v.Split(i, 0, len(wk)-1)], "C01,C10:lookup-after-value")
	} else {
		v.Assert(x == 0, "C01:lookup-after-zero")
	}
}

// VMapStep: one operation on a map holding exactly the pairs (keys[i], vals[i]) (keys pairwise distinct; values too
// for bidirectional maps), against the finite-map model of C01 / the one-to-one model of C10 / insertion order of C09.
func VMapStep(m Map[int, int], keys, vals []int, kind VKind) ([]int, []int) {
	op := v.CfgOr("op", -1)
	if op < 0 {
		op = v.IntIn("op", 0, VOpCount-1)
		if mask := v.CfgOr("ops", 0); mask > 0 { // restrict the symbolic choice to the operations in the bit mask
			for o := 0; o < VOpCount; o++ {
				if mask&(1<<o) == 0 {
					v.Assume(op != o)
				}
			}
		}
		op = v.Split(op, 0, VOpCount-1)
	}
	if op == VOpGetKey && !kind.Bidi {
		op = VOpObservers
	}
	wk, wv := keys, vals
	k := v.Int("key")
	switch op {
	case VOpPut:
		x := v.Int("val")
		m.Put(k, x)
		wk, wv = vModelPut(keys, vals, k, x, kind)
	case VOpRemove:
		m.Remove(k)
		if i := v.Split(vIdxK(keys, k), -1, len(keys)-1); i >= 0 {
			wk, wv = vDrop(keys, vals, i)
		}
	case VOpGet:
		v.BeginOp(true, m)
		x, found := m.Get(k)
		v.EndOp()
		i := vIdxK(keys, k)
		v.Assert(found == (i >= 0), "C01:get-found")
		if i >= 0 {
			v.Assert(x == vals[v.Split(i, 0, len(keys)-1)], "C01:get-value")
		} else {
			v.Assert(x == 0, "C01:get-zero")
		}
	case VOpGetKey:
		x := v.Int("val")
		v.BeginOp(true, m)
		kk, found := kind.GetKey(x)
		v.EndOp()
		i := vIdx(vals, x)
		v.Assert(found == (i >= 0), "C10:getkey-found")
		if i >= 0 {
			v.Assert(vl.Equiv(kk, keys[v.Split(i, 0, len(keys)-1)]), "C10:getkey-key")
		} else {
			v.Assert(kk == 0, "C10:getkey-zero")
		}
	case VOpClear:
		m.Clear()
		wk, wv = []int{}, []int{}
	case VOpObservers:
	case VOpString:
		v.BeginOp(true, m)
		str := m.String()
		v.EndOp()
		v.Assert(strings.HasPrefix(str, kind.Name), "C15:string-begins-with-container-name")
	}
	kind.Inv()
	v.BeginOp(true, m)
	gk, gv := m.Keys(), m.Values()
	_, _ = m.Size(), m.Empty()
	v.EndOp()
	v.Assert(len(gk) == len(wk), "C01,C10:keys-length")
	v.Assert(len(gv) == len(wk), "C01,C10:values-length")
	vl.Distinct(gk, "C01:key-listed-twice")
	if kind.Bidi {
		for i := 0; i < len(gv); i++ { // values: plain equality (the value comparator is a total order on ints)
			for j := i + 1; j < len(gv); j++ {
				v.Assert(gv[i] != gv[j], "C10:two-keys-share-a-value")
			}
		}
	}
	if len(gk) == len(wk) && len(gv) == len(wk) {
		switch {
		case kind.Ordered:
			for i := range wk {
				v.Assert(gk[i] == wk[i], "C09,C01:keys-in-insertion-order")
				v.Assert(gv[i] == wv[i], "C09,C01:values-position-aligned")
			}
		default:
			p := v.Int("probe")
			v.Assert(vCountK(gk, p) == vCountK(wk, p), "C01:keys-members")
			v.Assert(vCount(gv, p) == vCount(wv, p), "C01:values-multiset")
			if kind.SortedKeys {
				for i := 1; i < len(gk); i++ {
					v.Assert(vl.Less(gk[i-1], gk[i]), "C02:keys-ascending")
				}
				for i := range gk {
					x, _ := m.Get(gk[i])
					v.Assert(gv[i] == x, "C01:values-position-aligned")
				}
			}
			if kind.Sorted {
				for i := 1; i < len(gk); i++ {
					v.Assert(vl.Less(gk[i-1], gk[i]), "C02:keys-ascending")
					if kind.ValDesc {
						v.Assert(gv[i-1] > gv[i], "C02:values-ascending-by-the-value-comparator")
					} else {
						v.Assert(gv[i-1] < gv[i], "C02:values-ascending")
					}
				}
			}
		}
	}
	sz := m.Size()
	v.Assert(sz == len(wk), "C01,C10:size")
	v.Assert(sz == len(gk), "C15:size-keys")
	v.Assert(sz == len(gv), "C15:size-values")
	v.Assert(sz >= 0, "C15:size-nonneg")
	v.Assert(m.Empty() == (sz == 0), "C15:empty")
	// lookups after the step, for arbitrary probes
	q := v.Int("q")
	x, found := m.Get(q)
	i := vIdxK(wk, q)
	v.Assert(found == (i >= 0), "C01,C10:lookup-after-found")
	if i >= 0 {
		v.Assert(x == wv[v.Split(i, 0, len(wk)-1)], "C01,C10:lookup-after-value")
	} else {
		v.Assert(x == 0, "C01:lookup-after-zero")
	}
	if kind.Bidi {
		y := v.Int("qv")
		kk, found := kind.GetKey(y)
		j := vIdx(wv, y)
		v.Assert(found == (j >= 0), "C10:inverse-lookup-after-found")
		if j >= 0 {
			v.Assert(vl.Equiv(kk, wk[v.Split(j, 0, len(wk)-1)]), "C10:inverse-lookup-after-key")
		}
	}
	return wk, wv
}

// VMapHistory: D operations in a row from a freshly constructed container (every operation, key and value
// symbolic): complements the one-step check for state that the representation invariant does not describe.
func VMapHistory(m Map[int, int], kind VKind) {
	var keys, vals []int
	D := v.CfgOr("D", 3)
	// configuration I: the history starts with I Puts of arbitrary pairs, each followed by one arbitrary lookup (so
	// that read-side caches are exercised) but without the full observation of a step - longer histories at lower cost
	for i := 0; i < v.CfgOr("I", 0); i++ {
		k, x := v.Int("pk"), v.Int("px")
		m.Put(k, x)
		keys, vals = vModelPut(keys, vals, k, x, kind)
		vLookup(m, keys, vals, "pq")
	}
	for i := 0; i < D; i++ {
		keys, vals = VMapStep(m, keys, vals, kind)
	}
}

// VPairs draws n <= N pairs with pairwise distinct keys (and pairwise distinct values when bidi).
func VPairs(bidi bool) ([]int, []int) {
	n := v.Split(v.IntIn("n", 0, v.CfgOr("N", 3)), 0, 16)
	keys, vals := make([]int, n), make([]int, n)
	for i := 0; i < n; i++ {
		k, x := v.Int("k"), v.Int("x")
		for j := 0; j < i; j++ {
			v.Assume(!vl.Equiv(k, keys[j]))
			if bidi {
				v.Assume(x != vals[j])
			}
		}
		keys[i], vals[i] = k, x
	}
	return keys, vals
}

// VMapAscHistory: a REAL history from the constructor that is long but cheap: n Puts of strictly ascending keys (one path:
// every comparison is decided), then D arbitrary Put/Remove steps (symbolic keys and values, only the model is threaded
// through), then one full observation. State that the representation invariant does not describe (caches of the
// right-most leaf, of the minimum node, ...) evolves exactly as in real use, on trees of realistic size.
func VMapAscHistory(m Map[int, int], kind VKind) {
	n := v.Cfg("n")
	keys, vals := make([]int, n), make([]int, n)
	for i := 0; i < n; i++ {
		keys[i], vals[i] = v.Int("ak"), v.Int("ax")
		if i > 0 {
			v.Assume(vl.Less(keys[i-1], keys[i]))
		}
	}
	if v.CfgOr("desc", 0) == 1 { // descending insertion order
		for i := n - 1; i >= 0; i-- {
			m.Put(keys[i], vals[i])
		}
	} else {
		for i := 0; i < n; i++ {
			m.Put(keys[i], vals[i])
		}
	}
	D := v.CfgOr("D", 3)
	for i := 0; i < D; i++ {
		k := v.Int("key")
		if v.Bool("put") {
			x := v.Int("val")
			m.Put(k, x)
			// the model stays sorted by key: insert at the position of k, or overwrite
			if j := v.Split(vIdxK(keys, k), -1, len(keys)-1); j >= 0 {
				vals = append([]int{}, vals...)
				vals[j] = x
			} else {
				pos := 0
				for pos < len(keys) && vl.Less(keys[pos], k) {
					pos++
				}
				keys = append(append(append([]int{}, keys[:pos]...), k), keys[pos:]...)
				vals = append(append(append([]int{}, vals[:pos]...), x), vals[pos:]...)
			}
		} else {
			m.Remove(k)
			if j := v.Split(vIdxK(keys, k), -1, len(keys)-1); j >= 0 {
				keys, vals = vDrop(keys, vals, j)
			}
		}
	}
	kind.Inv()
	gk, gv := m.Keys(), m.Values()
	v.Assert(len(gk) == len(keys), "C01,C10:keys-length")
	v.Assert(len(gv) == len(keys), "C01,C10:values-length")
	v.Assert(m.Size() == len(keys), "C01,C10,C15:size")
	if len(gk) == len(keys) && len(gv) == len(keys) {
		for i := range keys {
			v.Assert(vl.Equiv(gk[i], keys[i]), "C01,C02:keys-in-order")
			v.Assert(gv[i] == vals[i], "C01:values-position-aligned")
		}
	}
	for i := range keys { // every live key is found with its value
		x, found := m.Get(keys[i])
		v.Assert(found, "C01:get-found")
		v.Assert(x == vals[i], "C01:get-value")
	}
}
