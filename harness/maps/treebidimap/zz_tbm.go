package treebidimap

import (
	"github.com/emirpasic/gods/v2/containers"
	"cmp"

	"github.com/emirpasic/gods/v2/maps"
	rbt "github.com/emirpasic/gods/v2/trees/redblacktree"
	v "github.com/emirpasic/gods/v2/zzvsup"
)

// VGMapOf builds a TreeBidiMap by the library's own Puts from the constructor (two coupled trees cannot be
// summarised independently): every insertion order of the pairs is a solver choice because the keys are symbolic.
func VGMapOf(keys, vals []int) *Map[int, int] {
	m := NewWith[int, int](cmp.Compare[int], cmp.Compare[int])
	for i := range keys {
		m.forwardMap.Put(keys[i], vals[i])
		m.inverseMap.Put(vals[i], keys[i])
	}
	return m
}

func VInv(m *Map[int, int]) {
	rbt.VInv(&m.forwardMap)
	rbt.VInv(&m.inverseMap)
	v.Assert(m.forwardMap.Size() == m.inverseMap.Size(), "C10:inv-sizes")
	for _, k := range m.forwardMap.Keys() {
		x, _ := m.forwardMap.Get(k)
		kk, ok := m.inverseMap.Get(x)
		v.Assert(v.And(ok, kk == k), "C10:inv-mutual-inverse")
	}
}

func VHMapStep() {
	keys, vals := maps.VPairs(true)
	m := VGMapOf(keys, vals)
	maps.VMapStep(m, keys, vals, maps.VKind{Bidi: true, Sorted: true, GetKey: m.GetKey, Inv: func() { VInv(m) }})
}

func VHIter() {
	ks, xs := maps.VPairs(true)
	m := VGMapOf(ks, xs)
	keys := m.Keys()
	vals := make([]int, len(keys))
	for j, k := range keys {
		vals[j], _ = m.Get(k)
	}
	containers.VKeyIterStep(func() containers.IteratorWithKey[int, int] { return m.Iterator() }, keys, vals, m)
}
