package treebidimap

import (
	vl "github.com/emirpasic/gods/v2/zzvlib"
	"encoding/json"
	"github.com/emirpasic/gods/v2/containers"
	"cmp"

	"github.com/emirpasic/gods/v2/maps"
	rbt "github.com/emirpasic/gods/v2/trees/redblacktree"
	v "github.com/emirpasic/gods/v2/zzvsup"
)

// VGMapOf builds a TreeBidiMap by the library's own Puts from the constructor (two coupled trees cannot be
// summarised independently): every insertion order of the pairs is a solver choice because the keys are symbolic.
func VGMapOf(keys, vals []int) *Map[int, int] {
	m := NewWith[int, int](vl.Cmp, vValCmp())
	for i := range keys {
		m.forwardMap.Put(keys[i], vals[i])
		m.inverseMap.Put(vals[i], keys[i])
	}
	return m
}

// vValCmp: the value comparator (configuration "cmpv": 0 natural, 1 reversed - a different order from the keys').
func vValCmp() func(a, b int) int {
	if v.CfgOr("cmpv", 0) == 1 {
		return func(a, b int) int { return cmp.Compare(b, a) }
	}
	return cmp.Compare[int]
}

func vValOrder() int { return 1 + v.CfgOr("cmpv", 0) }

func VInv(m *Map[int, int]) {
	rbt.VInv(&m.forwardMap) // keys: the configured comparator ("cmp")
	vl.WithOrder(vValOrder(), func() { rbt.VInv(&m.inverseMap) })
	v.Assert(m.forwardMap.Size() == m.inverseMap.Size(), "C10:inv-sizes")
	for _, k := range m.forwardMap.Keys() {
		x, _ := m.forwardMap.Get(k)
		kk, ok := m.inverseMap.Get(x)
		v.Assert(v.And(ok, vl.Equiv(kk, k)), "C10:inv-mutual-inverse") // up to key equivalence: which representative is kept is not specified
	}
}

func VHMapStep() {
	keys, vals := maps.VPairs(true)
	m := VGMapOf(keys, vals)
	maps.VMapStep(m, keys, vals, maps.VKind{Name: "TreeBidiMap", Bidi: true, Sorted: true, ValDesc: v.CfgOr("cmpv", 0) == 1, GetKey: m.GetKey, Inv: func() { VInv(m) }})
}

func VHIter() {
	ks, xs := maps.VPairs(true)
	m := VGMapOf(ks, xs)
	keys := m.Keys()
	vals := make([]int, len(keys))
	for j, k := range keys {
		vals[j], _ = m.Get(k)
	}
	containers.VKeyIterStep(func() containers.IteratorWithKey[int, int] { return m.Iterator() }, keys, vals, m)
}

func vMapOnly() *Map[int, int] { ks, xs := maps.VPairs(true); return VGMapOf(ks, xs) }

// VHEnum: Each/Any/All/Find/Select/Map with arbitrary predicate and mapping functions (C14).
func VHEnum() {
	m := vMapOnly()
	containers.VEnumStep(containers.VEnum{Recv: m, Inv: func(c any) { VInv(c.(*Map[int, int])) },
		Seq: func(c any) ([]int, []int) {
			r := c.(*Map[int, int])
			ks := r.Keys()
			xs := make([]int, len(ks))
			for i, k := range ks {
				xs[i], _ = r.Get(k)
			}
			return ks, xs
		},
		Each:   m.Each, Any: m.Any, All: m.All, Find: m.Find,
		Select: func(f func(a, b int) bool) any { return m.Select(f) },
		Map:    func(f func(a, b int) (int, int)) any { return m.Map(f) },
		Build: func(as, bs []int) any {
			r := NewWith[int, int](m.forwardMap.Comparator, m.inverseMap.Comparator)
			for i := range as {
				r.Put(as[i], bs[i])
			}
			return r
		},
		Touch: func(c any) {
			r := c.(*Map[int, int])
			for _, k := range r.Keys() {
				x, _ := r.Get(k)
				r.Put(k, x+1)
			}
			for _, k := range r.Keys() {
				r.Remove(k)
			}
			r.Put(v.Int("tk"), v.Int("tv"))
		},
	})
}

// VHSnap: returned slices are snapshots, argument slices are copied, GetSortedValues leaves the container alone (C16).
func VHSnap() {
	ks, xs := maps.VPairs(true)
	c := VGMapOf(ks, xs)
	containers.VSnapStep(containers.VSnap{C: c, Keys: c.Keys, Mutate: []func(){c.Clear, func() { c.Put(v.Int("mk"), v.Int("mv")) }, func() { c.Remove(v.Int("mk")) }}})
}

var _ = vl.Less

func vJSON(c *Map[int, int]) containers.VJSON {
	return containers.VJSON{C: c, ToJSON: c.ToJSON, FromJSON: c.FromJSON,
		Marshal: func() ([]byte, error) { return json.Marshal(c) },
		Unmarshal: func(data []byte) error { return json.Unmarshal(data, c) },
		Inv:     func() { VInv(c) },
		Step:    func() { k, x := v.Int("sk"), v.Int("sx"); c.Put(k, x); y, ok := c.Get(k); v.Assert(v.And(ok, y == x), "C12:put-after-load") },
		Fresh:   func() containers.VJSON { return vJSON(NewWith[int, int](vl.Cmp, vValCmp())) },
		Object: true, Bidi: true, Keys: c.Keys, Get: c.Get, Ref: func(ks, xs []int) ([]int, []int) { return vl.SortPairs(vl.LastPerKey(ks, xs)) },
	}
}

// VHJSONRound: ToJSON / json.Marshal / FromJSON round trip from an arbitrary state (C11).
func VHJSONRound() {
	ks, xs := maps.VPairs(true)
	c := VGMapOf(ks, xs)
	containers.VJSONRound(vJSON(c))
}

// VHJSONLoad: FromJSON of an arbitrary document into an arbitrary prior state (C12, C17).
func VHJSONLoad() {
	ks, xs := maps.VPairs(true)
	c := VGMapOf(ks, xs)
	containers.VJSONLoad(vJSON(c))
}

// VHHistory: D operations in a row from the constructor (see VMapHistory).
func VHHistory() {
	m := NewWith[int, int](vl.Cmp, vValCmp())
	if v.CfgOr("ctor", 0) == 1 { // the default-comparator constructor (cmp.Compare); only meaningful with cmp=0
		m = New[int, int]()
	}
	maps.VMapHistory(m, maps.VKind{Name: "TreeBidiMap", Bidi: true, Sorted: true, ValDesc: v.CfgOr("cmpv", 0) == 1, GetKey: m.GetKey, Inv: func() { VInv(m) }})
}
