package hashbidimap

import (
	"github.com/emirpasic/gods/v2/containers"
	"github.com/emirpasic/gods/v2/maps"
	"github.com/emirpasic/gods/v2/maps/hashmap"
	v "github.com/emirpasic/gods/v2/zzvsup"
)

func VGMapOf(keys, vals []int) *Map[int, int] {
	return &Map[int, int]{forwardMap: *hashmap.VGMapOf(keys, vals), inverseMap: *hashmap.VGMapOf(vals, keys)}
}

// VInv: forward(k) = x iff inverse(x) = k; sizes equal.
func VInv(m *Map[int, int]) {
	v.Assert(m.forwardMap.Size() == m.inverseMap.Size(), "C10:inv-sizes")
	for _, k := range m.forwardMap.Keys() {
		x, _ := m.forwardMap.Get(k)
		kk, ok := m.inverseMap.Get(x)
		v.Assert(v.And(ok, kk == k), "C10:inv-mutual-inverse")
	}
}

func VHMapStep() {
	keys, vals := maps.VPairs(true)
	m := VGMapOf(keys, vals)
	maps.VMapStep(m, keys, vals, maps.VKind{Bidi: true, GetKey: m.GetKey, Inv: func() { VInv(m) }})
}

// VHSnap: returned slices are snapshots, argument slices are copied, GetSortedValues leaves the container alone (C16).
func VHSnap() {
	ks, xs := maps.VPairs(true)
	c := VGMapOf(ks, xs)
	containers.VSnapStep(containers.VSnap{C: c, Keys: c.Keys, Mutate: []func(){c.Clear, func() { c.Put(v.Int("mk"), v.Int("mv")) }, func() { c.Remove(v.Int("mk")) }}, Hash: true})
}
