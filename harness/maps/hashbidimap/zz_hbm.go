package hashbidimap

import (
	vl "github.com/emirpasic/gods/v2/zzvlib"
	"encoding/json"
	"github.com/emirpasic/gods/v2/containers"
	"github.com/emirpasic/gods/v2/maps"
	"github.com/emirpasic/gods/v2/maps/hashmap"
	v "github.com/emirpasic/gods/v2/zzvsup"
)

func VGMapOf(keys, vals []int) *Map[int, int] {
	return &Map[int, int]{forwardMap: *hashmap.VGMapOf(keys, vals), inverseMap: *hashmap.VGMapOf(vals, keys)}
}

// VInv: forward(k) = x iff inverse(x) = k; sizes equal.
func VInv(m *Map[int, int]) {
	v.Assert(m.forwardMap.Size() == m.inverseMap.Size(), "C10:inv-sizes")
	for _, k := range m.forwardMap.Keys() {
		x, _ := m.forwardMap.Get(k)
		kk, ok := m.inverseMap.Get(x)
		v.Assert(v.And(ok, kk == k), "C10:inv-mutual-inverse")
	}
}

func VHMapStep() {
	keys, vals := maps.VPairs(true)
	m := VGMapOf(keys, vals)
	maps.VMapStep(m, keys, vals, maps.VKind{Name: "HashBidiMap", Bidi: true, GetKey: m.GetKey, Inv: func() { VInv(m) }})
}

// VHSnap: returned slices are snapshots, argument slices are copied, GetSortedValues leaves the container alone (C16).
func VHSnap() {
	ks, xs := maps.VPairs(true)
	c := VGMapOf(ks, xs)
	containers.VSnapStep(containers.VSnap{C: c, Keys: c.Keys, Mutate: []func(){c.Clear, func() { c.Put(v.Int("mk"), v.Int("mv")) }, func() { c.Remove(v.Int("mk")) }}, Hash: true})
}

var _ = vl.Less

func vJSON(c *Map[int, int]) containers.VJSON {
	return containers.VJSON{C: c, ToJSON: c.ToJSON, FromJSON: c.FromJSON,
		Marshal: func() ([]byte, error) { return json.Marshal(c) },
		Unmarshal: func(data []byte) error { return json.Unmarshal(data, c) },
		Inv:     func() { VInv(c) },
		Step:    func() { k, x := v.Int("sk"), v.Int("sx"); c.Put(k, x); y, ok := c.Get(k); v.Assert(v.And(ok, y == x), "C12:put-after-load") },
		Fresh:   func() containers.VJSON { return vJSON(New[int, int]()) },
		Object: true, Hash: true, Bidi: true, Keys: c.Keys, Get: c.Get, Ref: func(ks, xs []int) ([]int, []int) { return vl.LastPerKey(ks, xs) },
	}
}

// VHJSONRound: ToJSON / json.Marshal / FromJSON round trip from an arbitrary state (C11).
func VHJSONRound() {
	ks, xs := maps.VPairs(true)
	c := VGMapOf(ks, xs)
	containers.VJSONRound(vJSON(c))
}

// VHJSONLoad: FromJSON of an arbitrary document into an arbitrary prior state (C12, C17).
func VHJSONLoad() {
	ks, xs := maps.VPairs(true)
	c := VGMapOf(ks, xs)
	containers.VJSONLoad(vJSON(c))
}

// VHHistory: D operations in a row from the constructor (see VMapHistory).
func VHHistory() {
	m := New[int, int]()
	maps.VMapHistory(m, maps.VKind{Name: "HashBidiMap", Bidi: true, GetKey: m.GetKey, Inv: func() { VInv(m) }})
}
