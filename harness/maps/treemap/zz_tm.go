package treemap

import (
	"github.com/emirpasic/gods/v2/maps"
	"strings"
	"encoding/json"
	"github.com/emirpasic/gods/v2/containers"
	rbt "github.com/emirpasic/gods/v2/trees/redblacktree"
	vl "github.com/emirpasic/gods/v2/zzvlib"
	v "github.com/emirpasic/gods/v2/zzvsup"
)

func vNewInt() int { return v.Int("v") }

// VGMap is an arbitrary TreeMap: its red-black tree is an arbitrary valid tree of height <= H.
func VGMap() (*Map[int, int], *rbt.VSum[int]) {
	t, root := rbt.VNewTree(v.Cfg("H"), vNewInt)
	return &Map[int, int]{tree: t}, root
}

const (
	vOpPut = iota
	vOpRemove
	vOpGet
	vOpClear
	vOpMin
	vOpMax
	vOpFloor
	vOpCeiling
	vOpCount
)

// VHMapStep: one TreeMap operation from an arbitrary state (C01 map semantics, C02 navigation, C18 purity of readers).
func VHMapStep() {
	m, root := VGMap()
	op := v.CfgOr("op", -1)
	if op < 0 {
		op = v.Split(v.IntIn("op", 0, vOpCount-1), 0, vOpCount-1)
	}
	k := v.Int("key")
	switch op {
	case vOpPut:
		x := v.Int("val")
		m.Put(k, x)
		rbt.VInv(m.tree)
		vl.SeqPut(rbt.VPre(root, nil), rbt.VPost(&m.tree.Root, nil, 0), k, x, "C01:put")
	case vOpRemove:
		m.Remove(k)
		rbt.VInv(m.tree)
		pre := rbt.VPre(root, nil)
		if !vl.SeqRemove(pre, rbt.VPost(&m.tree.Root, nil, 0), k, "C01:remove") {
			vl.Absent(pre, k, "C01:remove-absent-but-maybe-present")
		}
	case vOpGet:
		v.BeginOp(true, m)
		x, found := m.Get(k)
		v.EndOp()
		pre := rbt.VPre(root, nil)
		vl.SeqSame(pre, rbt.VPost(&m.tree.Root, nil, 0), "C18:get-unchanged")
		vl.GetCheck(pre, k, x, found)
	case vOpClear:
		m.Clear()
		rbt.VInv(m.tree)
		v.Assert(v.And(m.Size() == 0, m.Empty()), "C15:clear-empty")
		v.Assert(len(m.Keys()) == 0, "C15:clear-keys")
		v.Assert(len(m.Values()) == 0, "C15:clear-values")
		_, _, ok := m.Min()
		v.Assert(!ok, "C15:clear-min")
	default:
		nk, nv, ok := 0, 0, false
		v.BeginOp(true, m)
		nav := vl.NavLeft
		switch op {
		case vOpMin:
			nk, nv, ok = m.Min()
		case vOpMax:
			nk, nv, ok = m.Max()
			nav = vl.NavRight
		case vOpFloor:
			nk, nv, ok = m.Floor(k)
			nav = vl.NavFloor
		case vOpCeiling:
			nk, nv, ok = m.Ceiling(k)
			nav = vl.NavCeiling
		}
		v.EndOp()
		if !ok {
			v.Assert(v.And(nk == 0, nv == 0), "C02:notfound-zero")
		}
		vl.NavCheck(nav, k, ok, ok, nk, nv, rbt.VPost(&m.tree.Root, nil, 0))
	}
	v.Assert(m.Empty() == (m.Size() == 0), "C15:empty")
	v.Assert(m.Size() >= 0, "C15:size-nonneg")
}

// VGSmall builds a TreeMap by the library's own Put of n <= N arbitrary pairs.
func VGSmall() *Map[int, int] {
	n := v.Split(v.IntIn("n", 0, v.CfgOr("N", 3)), 0, 16)
	m := NewWith[int, int](vl.Cmp)
	for i := 0; i < n; i++ {
		m.Put(v.Int("k"), v.Int("x"))
	}
	return m
}

func VHIter() {
	m := VGSmall()
	keys, vals := m.Keys(), m.Values()
	containers.VKeyIterStep(func() containers.IteratorWithKey[int, int] { return m.Iterator() }, keys, vals, m)
}

// VHEnum: Each/Any/All/Find/Select/Map with arbitrary predicate and mapping functions (C14).
func VHEnum() {
	m := VGSmall()
	containers.VEnumStep(containers.VEnum{Recv: m, Inv: func(c any) { rbt.VInv(c.(*Map[int, int]).tree) },
		Seq: func(c any) ([]int, []int) {
			r := c.(*Map[int, int])
			ks := r.Keys()
			xs := make([]int, len(ks))
			for i, k := range ks {
				xs[i], _ = r.Get(k)
			}
			return ks, xs
		},
		Each:   m.Each, Any: m.Any, All: m.All, Find: m.Find,
		Select: func(f func(a, b int) bool) any { return m.Select(f) },
		Map:    func(f func(a, b int) (int, int)) any { return m.Map(f) },
		Build: func(as, bs []int) any {
			r := NewWith[int, int](m.tree.Comparator)
			for i := range as {
				r.Put(as[i], bs[i])
			}
			return r
		},
		Touch: func(c any) {
			r := c.(*Map[int, int])
			for _, k := range r.Keys() {
				x, _ := r.Get(k)
				r.Put(k, x+1)
			}
			for _, k := range r.Keys() {
				r.Remove(k)
			}
			r.Put(v.Int("tk"), v.Int("tv"))
		},
	})
}

// VHSnap: returned slices are snapshots, argument slices are copied, GetSortedValues leaves the container alone (C16).
func VHSnap() {
	c := VGSmall()
	containers.VSnapStep(containers.VSnap{C: c, Keys: c.Keys, Mutate: []func(){c.Clear, func() { c.Put(v.Int("mk"), v.Int("mv")) }, func() { c.Remove(v.Int("mk")) }}})
}

var _ = vl.Less

func vJSON(c *Map[int, int]) containers.VJSON {
	return containers.VJSON{C: c, ToJSON: c.ToJSON, FromJSON: c.FromJSON,
		Marshal: func() ([]byte, error) { return json.Marshal(c) },
		Unmarshal: func(data []byte) error { return json.Unmarshal(data, c) },
		Inv:     func() { rbt.VInv(c.tree) },
		Step:    func() { k, x := v.Int("sk"), v.Int("sx"); c.Put(k, x); y, ok := c.Get(k); v.Assert(v.And(ok, y == x), "C12:put-after-load") },
		Fresh:   func() containers.VJSON { return vJSON(NewWith[int, int](vl.Cmp)) },
		Object: true, Keys: c.Keys, Get: c.Get, Ref: func(ks, xs []int) ([]int, []int) { return vl.SortPairs(vl.LastPerKey(ks, xs)) },
	}
}

// VHJSONRound: ToJSON / json.Marshal / FromJSON round trip from an arbitrary state (C11).
func VHJSONRound() {
	c := VGSmall()
	containers.VJSONRound(vJSON(c))
}

// VHJSONLoad: FromJSON of an arbitrary document into an arbitrary prior state (C12, C17).
func VHJSONLoad() {
	c := VGSmall()
	containers.VJSONLoad(vJSON(c))
}

// VHString: String() begins with the container's name and is read-only (C15, C18).
func VHString() {
	c := VGSmall()
	v.BeginOp(true, c)
	s := c.String()
	v.EndOp()
	v.Assert(strings.HasPrefix(s, "TreeMap"), "C15:string-begins-with-container-name")
}

// VHHistory: D operations in a row from the constructor (see VMapHistory).
func VHHistory() {
	m := NewWith[int, int](vl.Cmp)
	if v.CfgOr("ctor", 0) == 1 { // the default-comparator constructor (cmp.Compare); only meaningful with cmp=0
		m = New[int, int]()
	}
	maps.VMapHistory(m, maps.VKind{Name: "TreeMap", SortedKeys: true, Inv: func() { rbt.VInv(m.tree) }})
}
