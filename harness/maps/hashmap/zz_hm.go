package hashmap

import (
	"github.com/emirpasic/gods/v2/maps"
	v "github.com/emirpasic/gods/v2/zzvsup"
)

// VGMapOf builds the HashMap holding exactly the given pairs.
func VGMapOf(keys, vals []int) *Map[int, int] {
	m := &Map[int, int]{m: make(map[int]int)}
	for i := range keys {
		m.m[keys[i]] = vals[i]
	}
	return m
}

func VHMapStep() {
	keys, vals := maps.VPairs(false)
	m := VGMapOf(keys, vals)
	maps.VMapStep(m, keys, vals, maps.VKind{Inv: func() { v.Assert(m.m != nil, "inv-map-nil") }})
}
