package hashmap

import (
	vl "github.com/emirpasic/gods/v2/zzvlib"
	"encoding/json"
	"github.com/emirpasic/gods/v2/containers"
	"github.com/emirpasic/gods/v2/maps"
	v "github.com/emirpasic/gods/v2/zzvsup"
)

// VGMapOf builds the HashMap holding exactly the given pairs.
func VGMapOf(keys, vals []int) *Map[int, int] {
	m := &Map[int, int]{m: make(map[int]int)}
	for i := range keys {
		m.m[keys[i]] = vals[i]
	}
	return m
}

func VHMapStep() {
	keys, vals := maps.VPairs(false)
	m := VGMapOf(keys, vals)
	maps.VMapStep(m, keys, vals, maps.VKind{Name: "HashMap", Inv: func() { v.Assert(m.m != nil, "inv-map-nil") }})
}

// VHSnap: returned slices are snapshots, argument slices are copied, GetSortedValues leaves the container alone (C16).
func VHSnap() {
	ks, xs := maps.VPairs(false)
	c := VGMapOf(ks, xs)
	containers.VSnapStep(containers.VSnap{C: c, Keys: c.Keys, Mutate: []func(){c.Clear, func() { c.Put(v.Int("mk"), v.Int("mv")) }, func() { c.Remove(v.Int("mk")) }}, Hash: true})
}

var _ = vl.Less

func vJSON(c *Map[int, int]) containers.VJSON {
	return containers.VJSON{C: c, ToJSON: c.ToJSON, FromJSON: c.FromJSON,
		Marshal: func() ([]byte, error) { return json.Marshal(c) },
		Unmarshal: func(data []byte) error { return json.Unmarshal(data, c) },
		Inv:     func() { v.Assert(c.m != nil, "inv-map-nil") },
		Step:    func() { k, x := v.Int("sk"), v.Int("sx"); c.Put(k, x); y, ok := c.Get(k); v.Assert(v.And(ok, y == x), "C12:put-after-load") },
		Fresh:   func() containers.VJSON { return vJSON(New[int, int]()) },
		Object: true, Hash: true, Keys: c.Keys, Get: c.Get, Ref: func(ks, xs []int) ([]int, []int) { return vl.LastPerKey(ks, xs) },
	}
}

// VHJSONRound: ToJSON / json.Marshal / FromJSON round trip from an arbitrary state (C11).
func VHJSONRound() {
	ks, xs := maps.VPairs(false)
	c := VGMapOf(ks, xs)
	containers.VJSONRound(vJSON(c))
}

// VHJSONLoad: FromJSON of an arbitrary document into an arbitrary prior state (C12, C17).
func VHJSONLoad() {
	ks, xs := maps.VPairs(false)
	c := VGMapOf(ks, xs)
	containers.VJSONLoad(vJSON(c))
}

// VHHistory: D operations in a row from the constructor (see VMapHistory).
func VHHistory() {
	m := New[int, int]()
	maps.VMapHistory(m, maps.VKind{Name: "HashMap", Inv: func() { v.Assert(m.m != nil, "inv-map-nil") }})
}
