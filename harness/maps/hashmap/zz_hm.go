package hashmap

import (
	"github.com/emirpasic/gods/v2/containers"
	"github.com/emirpasic/gods/v2/maps"
	v "github.com/emirpasic/gods/v2/zzvsup"
)

// VGMapOf builds the HashMap holding exactly the given pairs.
func VGMapOf(keys, vals []int) *Map[int, int] {
	m := &Map[int, int]{m: make(map[int]int)}
	for i := range keys {
		m.m[keys[i]] = vals[i]
	}
	return m
}

func VHMapStep() {
	keys, vals := maps.VPairs(false)
	m := VGMapOf(keys, vals)
	maps.VMapStep(m, keys, vals, maps.VKind{Inv: func() { v.Assert(m.m != nil, "inv-map-nil") }})
}

// VHSnap: returned slices are snapshots, argument slices are copied, GetSortedValues leaves the container alone (C16).
func VHSnap() {
	ks, xs := maps.VPairs(false)
	c := VGMapOf(ks, xs)
	containers.VSnapStep(containers.VSnap{C: c, Keys: c.Keys, Mutate: []func(){c.Clear, func() { c.Put(v.Int("mk"), v.Int("mv")) }, func() { c.Remove(v.Int("mk")) }}, Hash: true})
}
