package linkedhashmap

import (
	"github.com/emirpasic/gods/v2/containers"
	"github.com/emirpasic/gods/v2/lists/doublylinkedlist"
	"github.com/emirpasic/gods/v2/maps"
	v "github.com/emirpasic/gods/v2/zzvsup"
)

func VGMapOf(keys, vals []int) *Map[int, int] {
	m := &Map[int, int]{table: make(map[int]int)}
	for i := range keys {
		m.table[keys[i]] = vals[i]
	}
	m.ordering = doublylinkedlist.VGListOf(keys)
	return m
}

// VInv: order list valid and set(list) = keys(table).
func VInv(m *Map[int, int]) {
	v.Assert(m.table != nil, "inv-map-nil")
	v.Assert(m.ordering != nil, "inv-list-nil")
	doublylinkedlist.VInv(m.ordering)
	ks := m.ordering.Values()
	v.Assert(len(ks) == len(m.table), "inv-table-list-size")
	for _, k := range ks {
		_, ok := m.table[k]
		v.Assert(ok, "inv-list-key-not-in-table")
	}
}

func VHMapStep() {
	keys, vals := maps.VPairs(false)
	m := VGMapOf(keys, vals)
	maps.VMapStep(m, keys, vals, maps.VKind{Ordered: true, Inv: func() { VInv(m) }})
}

func VHIter() {
	keys, vals := maps.VPairs(false)
	m := VGMapOf(keys, vals)
	containers.VKeyIterStep(func() containers.IteratorWithKey[int, int] { return m.Iterator() }, keys, vals, m)
}
