package linkedhashmap

import (
	vl "github.com/emirpasic/gods/v2/zzvlib"
	"encoding/json"
	"github.com/emirpasic/gods/v2/containers"
	"github.com/emirpasic/gods/v2/lists/doublylinkedlist"
	"github.com/emirpasic/gods/v2/maps"
	v "github.com/emirpasic/gods/v2/zzvsup"
)

func VGMapOf(keys, vals []int) *Map[int, int] {
	m := &Map[int, int]{table: make(map[int]int)}
	for i := range keys {
		m.table[keys[i]] = vals[i]
	}
	m.ordering = doublylinkedlist.VGListOf(keys)
	return m
}

// VInv: order list valid and set(list) = keys(table).
func VInv(m *Map[int, int]) {
	v.Assert(m.table != nil, "inv-map-nil")
	v.Assert(m.ordering != nil, "inv-list-nil")
	doublylinkedlist.VInv(m.ordering)
	ks := m.ordering.Values()
	v.Assert(len(ks) == len(m.table), "inv-table-list-size")
	for _, k := range ks {
		_, ok := m.table[k]
		v.Assert(ok, "inv-list-key-not-in-table")
	}
}

func VHMapStep() {
	keys, vals := maps.VPairs(false)
	m := VGMapOf(keys, vals)
	maps.VMapStep(m, keys, vals, maps.VKind{Name: "LinkedHashMap", Ordered: true, Inv: func() { VInv(m) }})
}

func VHIter() {
	keys, vals := maps.VPairs(false)
	m := VGMapOf(keys, vals)
	containers.VKeyIterStep(func() containers.IteratorWithKey[int, int] { return m.Iterator() }, keys, vals, m)
}

func vMapOnly() *Map[int, int] { ks, xs := maps.VPairs(false); return VGMapOf(ks, xs) }

// VHEnum: Each/Any/All/Find/Select/Map with arbitrary predicate and mapping functions (C14).
func VHEnum() {
	m := vMapOnly()
	containers.VEnumStep(containers.VEnum{Recv: m, Inv: func(c any) { VInv(c.(*Map[int, int])) },
		Seq: func(c any) ([]int, []int) {
			r := c.(*Map[int, int])
			ks := r.Keys()
			xs := make([]int, len(ks))
			for i, k := range ks {
				xs[i], _ = r.Get(k)
			}
			return ks, xs
		},
		Each:   m.Each, Any: m.Any, All: m.All, Find: m.Find,
		Select: func(f func(a, b int) bool) any { return m.Select(f) },
		Map:    func(f func(a, b int) (int, int)) any { return m.Map(f) },
		Build: func(as, bs []int) any {
			r := New[int, int]()
			for i := range as {
				r.Put(as[i], bs[i])
			}
			return r
		},
		Touch: func(c any) {
			r := c.(*Map[int, int])
			for _, k := range r.Keys() {
				x, _ := r.Get(k)
				r.Put(k, x+1)
			}
			for _, k := range r.Keys() {
				r.Remove(k)
			}
			r.Put(v.Int("tk"), v.Int("tv"))
		},
	})
}

// VHSnap: returned slices are snapshots, argument slices are copied, GetSortedValues leaves the container alone (C16).
func VHSnap() {
	ks, xs := maps.VPairs(false)
	c := VGMapOf(ks, xs)
	containers.VSnapStep(containers.VSnap{C: c, Keys: c.Keys, Mutate: []func(){c.Clear, func() { c.Put(v.Int("mk"), v.Int("mv")) }, func() { c.Remove(v.Int("mk")) }}})
}

var _ = vl.Less

func vJSON(c *Map[int, int]) containers.VJSON {
	return containers.VJSON{C: c, ToJSON: c.ToJSON, FromJSON: c.FromJSON,
		Marshal: func() ([]byte, error) { return json.Marshal(c) },
		Unmarshal: func(data []byte) error { return json.Unmarshal(data, c) },
		Inv:     func() { VInv(c) },
		Step:    func() { k, x := v.Int("sk"), v.Int("sx"); c.Put(k, x); y, ok := c.Get(k); v.Assert(v.And(ok, y == x), "C12:put-after-load") },
		Fresh:   func() containers.VJSON { return vJSON(New[int, int]()) },
		Object: true, Digits: true, Keys: c.Keys, Get: c.Get, Ref: func(ks, xs []int) ([]int, []int) { return vl.LastPerKey(ks, xs) },
	}
}

// VHJSONRound: ToJSON / json.Marshal / FromJSON round trip from an arbitrary state (C11).
func VHJSONRound() {
	ks, xs := maps.VPairs(false)
	c := VGMapOf(ks, xs)
	containers.VJSONRound(vJSON(c))
}

// VHJSONLoad: FromJSON of an arbitrary document into an arbitrary prior state (C12, C17).
func VHJSONLoad() {
	ks, xs := maps.VPairs(false)
	c := VGMapOf(ks, xs)
	containers.VJSONLoad(vJSON(c))
}

// VHHistory: D operations in a row from the constructor (see VMapHistory).
func VHHistory() {
	m := New[int, int]()
	maps.VMapHistory(m, maps.VKind{Name: "LinkedHashMap", Ordered: true, Inv: func() { VInv(m) }})
}

// ---- string keys and string values (C11: "string and integer key types, values that contain text equal to keys") ----

// vStrView presents a Map[string,string] as a container of atoms to the shared JSON harnesses.
type vStrView struct{ m *Map[string, string] }

func (w vStrView) Empty() bool    { return w.m.Empty() }
func (w vStrView) Size() int      { return w.m.Size() }
func (w vStrView) Clear()         { w.m.Clear() }
func (w vStrView) String() string { return w.m.String() }
func (w vStrView) Values() []int {
	xs := w.m.Values()
	out := make([]int, len(xs))
	for i, x := range xs {
		out[i] = v.IntOf(x)
	}
	return out
}

// VGStrMap is an arbitrary LinkedHashMap[string,string] of n <= N pairs with pairwise distinct (symbolic) keys;
// values are unconstrained, so a value equal to a key is a solver choice.
func VGStrMap() *Map[string, string] {
	n := v.Split(v.IntIn("n", 0, v.CfgOr("N", 3)), 0, 16)
	m := &Map[string, string]{table: make(map[string]string)}
	keys := make([]string, n)
	for i := 0; i < n; i++ {
		k := v.Str("k")
		for j := 0; j < i; j++ {
			v.Assume(k != keys[j])
		}
		keys[i] = k
		m.table[k] = v.Str("x")
	}
	m.ordering = doublylinkedlist.VGStrListOf(keys)
	return m
}

func vJSONS(c *Map[string, string]) containers.VJSON {
	return containers.VJSON{C: vStrView{c}, ToJSON: c.ToJSON, FromJSON: c.FromJSON, Object: true, Strs: true,
		Marshal:   func() ([]byte, error) { return json.Marshal(c) },
		Unmarshal: func(data []byte) error { return json.Unmarshal(data, c) },
		Keys: func() []int {
			ks := c.Keys()
			out := make([]int, len(ks))
			for i, k := range ks {
				out[i] = v.IntOf(k)
			}
			return out
		},
		Get:   func(k int) (int, bool) { x, ok := c.Get(v.StrOf(k)); return v.IntOf(x), ok },
		Inv:   func() { v.Assert(c.table != nil && c.ordering != nil, "inv-nil"); v.Assert(c.ordering.Size() == len(c.table), "inv-table-list-size") },
		Step:  func() { k, x := v.Str("sk"), v.Str("sx"); c.Put(k, x); y, ok := c.Get(k); v.Assert(v.And(ok, y == x), "C12:put-after-load") },
		Fresh: func() containers.VJSON { return vJSONS(New[string, string]()) },
		Ref:   func(ks, xs []int) ([]int, []int) { return vl.LastPerKey(ks, xs) },
	}
}

// VHJSONRoundStr / VHJSONLoadStr: the serialization harnesses on a string-keyed, string-valued map.
func VHJSONRoundStr() { containers.VJSONRound(vJSONS(VGStrMap())) }
func VHJSONLoadStr()  { containers.VJSONLoad(vJSONS(VGStrMap())) }
