package lists

import (
	"cmp"
	"strings"

	v "github.com/emirpasic/gods/v2/zzvsup"
)

// VExt carries what is not part of the List interface.
type VExt struct {
	Append, Prepend func(vs ...int)
	IndexOf         func(x int) int
	Inv             func() // representation invariant of the concrete list (assertions)
	Name            string // what String() begins with
}

const (
	VOpAdd = iota
	VOpAppend
	VOpPrepend
	VOpInsert
	VOpRemove
	VOpSet
	VOpSwap
	VOpSort
	VOpClear
	VOpGet
	VOpIndexOf
	VOpContains
	VOpObservers
	VOpString
	VOpCount
)

func vArgs(tag string) []int {
	k := v.Split(v.IntIn("k", 0, v.CfgOr("K", 2)), 0, 8)
	vs := make([]int, k)
	for j := 0; j < k; j++ {
		vs[j] = v.Int(tag)
	}
	return vs
}

func vCmp(a, b int) int { return cmp.Compare(a, b) }

// vCount is the number of occurrences of x in s, as a term (no forking).
func vCount(s []int, x int) int {
	c := 0
	for i := 0; i < len(s); i++ {
		c = c + v.Ite(s[i] == x, 1, 0)
	}
	return c
}

// VSeqStep runs one list operation with arbitrary arguments on l, whose abstract content is pre,
// and checks the result against the mathematical-sequence model of property C03.
func VSeqStep(l List[int], pre []int, ext VExt) []int {
	op := v.CfgOr("op", -1)
	if op < 0 {
		op = v.IntIn("op", 0, VOpCount-1)
		if v.CfgOr("nosort", 0) == 1 { // wide runs: every operation except Sort (whose paths grow like n!)
			v.Assume(op != VOpSort)
		}
		op = v.Split(op, 0, VOpCount-1)
	}
	n := len(pre)
	want := pre
	switch op {
	case VOpAdd, VOpAppend:
		vs := vArgs("x")
		if op == VOpAdd {
			l.Add(vs...)
		} else {
			ext.Append(vs...)
		}
		want = append(append([]int{}, pre...), vs...)
	case VOpPrepend:
		vs := vArgs("x")
		ext.Prepend(vs...)
		want = append(append([]int{}, vs...), pre...)
	case VOpInsert:
		i := v.Int("i")
		vs := vArgs("x")
		l.Insert(i, vs...)
		if i >= 0 {
			if i <= n {
				ci := v.Split(i, 0, n)
				want = append(append(append([]int{}, pre[:ci]...), vs...), pre[ci:]...)
			}
		}
	case VOpRemove:
		i := v.Int("i")
		l.Remove(i)
		if i >= 0 {
			if i < n {
				ci := v.Split(i, 0, n-1)
				want = append(append([]int{}, pre[:ci]...), pre[ci+1:]...)
			}
		}
	case VOpSet:
		i := v.Int("i")
		x := v.Int("x")
		l.Set(i, x)
		if i >= 0 {
			if i < n {
				want = append([]int{}, pre...)
				want[i] = x
			} else if i == n {
				want = append(append([]int{}, pre...), x)
			}
		}
	case VOpSwap:
		i := v.Int("i")
		j := v.Int("j")
		l.Swap(i, j)
		if v.And(v.And(i >= 0, i < n), v.And(j >= 0, j < n)) {
			want = append([]int{}, pre...)
			a, b := pre[i], pre[j]
			want[i] = b
			want[j] = a
		}
	case VOpSort:
		if j := v.CfgOr("ascbut", -1); j >= 0 {
			// wide Sort runs: the content is any strictly ascending sequence followed by j arbitrary elements, so that the sort's
			// comparisons among the first n-j elements are decided and only the last j fork (n! orders otherwise)
			for i := 1; i < n-j; i++ {
				v.Assume(pre[i-1] < pre[i])
			}
		}
		l.Sort(vCmp)
		got := l.Values()
		v.Assert(len(got) == n, "C03:sort-length")
		if len(got) == n {
			for i := 1; i < n; i++ {
				v.Assert(got[i-1] <= got[i], "C03:sort-sorted")
			}
			probe := v.Int("probe")
			v.Assert(vCount(got, probe) == vCount(pre, probe), "C03:sort-permutation")
		}
		ext.Inv()
		v.Assert(l.Size() == n, "C03:size")
		return got
	case VOpClear:
		l.Clear()
		want = []int{}
	case VOpGet:
		i := v.Int("i")
		v.BeginOp(true, l)
		got, ok := l.Get(i)
		v.EndOp()
		if v.And(i >= 0, i < n) {
			v.Assert(ok, "C03:get-found")
			v.Assert(got == pre[i], "C03:get-value")
		} else {
			v.Assert(!ok, "C03:get-notfound")
			v.Assert(got == 0, "C03:get-zero")
		}
	case VOpIndexOf:
		x := v.Int("x")
		v.BeginOp(true, l)
		got := ext.IndexOf(x)
		v.EndOp()
		// model: least index holding x, else -1
		exp := -1
		for i := n - 1; i >= 0; i-- {
			exp = v.Ite(pre[i] == x, i, exp)
		}
		v.Assert(got == exp, "C03:indexof")
	case VOpContains:
		vs := vArgs("x")
		v.BeginOp(true, l)
		got := l.Contains(vs...)
		v.EndOp()
		exp := true
		for _, x := range vs {
			exp = v.And(exp, vCount(pre, x) > 0)
		}
		v.Assert(got == exp, "C03:contains")
	case VOpObservers:
	case VOpString:
		v.BeginOp(true, l)
		s := l.String()
		v.EndOp()
		v.Assert(strings.HasPrefix(s, ext.Name), "C15:string-begins-with-container-name")
	}
	// observers agree with the model (C03) and with each other (C15); they are read-only (C18)
	ext.Inv()
	v.BeginOp(true, l)
	got := l.Values()
	_, _ = l.Size(), l.Empty()
	v.EndOp()
	v.Assert(len(got) == len(want), "C03:values-length")
	if len(got) == len(want) {
		for i := 0; i < len(want); i++ {
			v.Assert(got[i] == want[i], "C03:values")
		}
	}
	sz := l.Size()
	v.Assert(sz == len(want), "C03:size")
	v.Assert(sz == len(got), "C15:size-values")
	v.Assert(sz >= 0, "C15:size-nonneg")
	v.Assert(l.Empty() == (sz == 0), "C15:empty")
	return want
}

// VSeqHistory: D operations in a row from a freshly constructed list.
func VSeqHistory(l List[int], ext VExt) {
	VSeqHistoryFrom(l, nil, ext)
}

// VSeqHistoryFrom: the same from a list constructed with initial values.
func VSeqHistoryFrom(l List[int], seq []int, ext VExt) {
	D := v.CfgOr("D", 3)
	for i := 0; i < D; i++ {
		seq = VSeqStep(l, seq, ext)
	}
}
