package singlylinkedlist

import (
	"github.com/emirpasic/gods/v2/containers"
	"github.com/emirpasic/gods/v2/lists"
	v "github.com/emirpasic/gods/v2/zzvsup"
)

// VGList is an arbitrary singly linked list of n <= N elements satisfying the representation invariant.
func VGList() (*List[int], []int) {
	n := v.Split(v.IntIn("n", 0, v.CfgOr("N", 3)), 0, 16)
	l := &List[int]{size: n}
	pre := make([]int, n)
	var prev *element[int]
	for i := 0; i < n; i++ {
		e := &element[int]{value: v.Int("e")}
		pre[i] = e.value
		if prev == nil {
			l.first = e
		} else {
			prev.next = e
		}
		prev = e
	}
	l.last = prev
	return l, pre
}

// VInv asserts: size = chain length, first/last nil iff empty, last is the final element.
func VInv(l *List[int]) {
	bound := v.CfgOr("N", 3) + 2*v.CfgOr("K", 2) + 2
	if l.first == nil || l.last == nil {
		v.Assert(l.first == nil, "inv-first-nil")
		v.Assert(l.last == nil, "inv-last-nil")
		v.Assert(l.size == 0, "inv-size0")
		return
	}
	cnt := 0
	var prev *element[int]
	for e := l.first; e != nil; e = e.next {
		prev = e
		cnt++
		if cnt > bound {
			v.Assert(false, "inv-chain-too-long-or-cyclic")
			return
		}
	}
	v.Assert(prev == l.last, "inv-last")
	v.Assert(cnt == l.size, "inv-size")
}

func VHListStep() {
	l, pre := VGList()
	lists.VSeqStep(l, pre, lists.VExt{
		Append:  l.Append,
		Prepend: l.Prepend,
		IndexOf: l.IndexOf,
		Inv:     func() { VInv(l) },
	})
}

func VHIter() {
	l, pre := VGList()
	containers.VIterStep(func() containers.IteratorWithIndex[int] { return l.Iterator() }, pre, l)
}
