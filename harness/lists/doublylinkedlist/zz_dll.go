package doublylinkedlist

import (
	vl "github.com/emirpasic/gods/v2/zzvlib"
	"encoding/json"
	"github.com/emirpasic/gods/v2/containers"
	"github.com/emirpasic/gods/v2/lists"
	v "github.com/emirpasic/gods/v2/zzvsup"
)

// VGList is an arbitrary doubly linked list of n <= N elements satisfying the representation invariant.
func VGList() (*List[int], []int) {
	n := v.Split(v.IntIn("n", v.CfgOr("lo", 0), v.CfgOr("N", 3)), 0, 64)
	l := &List[int]{size: n}
	pre := make([]int, n)
	var prev *element[int]
	for i := 0; i < n; i++ {
		e := &element[int]{value: v.Int("e"), prev: prev}
		pre[i] = e.value
		if prev == nil {
			l.first = e
		} else {
			prev.next = e
		}
		prev = e
	}
	l.last = prev
	return l, pre
}

// VGListOf builds the list holding exactly vals.
func VGListOf(vals []int) *List[int] {
	l := &List[int]{size: len(vals)}
	var prev *element[int]
	for _, x := range vals {
		e := &element[int]{value: x, prev: prev}
		if prev == nil {
			l.first = e
		} else {
			prev.next = e
		}
		prev = e
	}
	l.last = prev
	return l
}

// VInv asserts the representation invariant: size = chain length, first/last nil iff empty,
// prev mirrors next, first.prev = nil, last.next = nil.
func VInv(l *List[int]) {
	bound := v.CfgOr("N", 3) + 2*v.CfgOr("K", 2) + 2
	if l.first == nil || l.last == nil {
		v.Assert(l.first == nil, "inv-first-nil")
		v.Assert(l.last == nil, "inv-last-nil")
		v.Assert(l.size == 0, "inv-size0")
		return
	}
	v.Assert(l.first.prev == nil, "inv-first-prev")
	cnt := 0
	var prev *element[int]
	for e := l.first; e != nil; e = e.next {
		v.Assert(e.prev == prev, "inv-prev")
		prev = e
		cnt++
		if cnt > bound {
			v.Assert(false, "inv-chain-too-long-or-cyclic")
			return
		}
	}
	v.Assert(prev == l.last, "inv-last")
	v.Assert(cnt == l.size, "inv-size")
}

func VHListStep() {
	l, pre := VGList()
	lists.VSeqStep(l, pre, lists.VExt{Name: "DoublyLinkedList",
		Append:  l.Append,
		Prepend: l.Prepend,
		IndexOf: l.IndexOf,
		Inv:     func() { VInv(l) },
	})
}

func VHIter() {
	l, pre := VGList()
	containers.VIterStep(func() containers.IteratorWithIndex[int] { it := l.Iterator(); return &it }, pre, l)
}

// VHEnum: Each/Any/All/Find/Select/Map with arbitrary predicate and mapping functions (C14).
func VHEnum() {
	l, _ := VGList()
	containers.VEnumStep(containers.VEnum{Recv: l, Inv: func(c any) { VInv(c.(*List[int])) }, Indexed: true,
		Seq:    func(c any) ([]int, []int) { vs := c.(*List[int]).Values(); return containers.VIdx(len(vs)), vs },
		Each:   l.Each, Any: l.Any, All: l.All, Find: l.Find,
		Select: func(f func(a, b int) bool) any { return l.Select(f) },
		Map: func(f func(a, b int) (int, int)) any {
			return l.Map(func(i, x int) int { _, y := f(i, x); return y })
		},
		Build: func(as, bs []int) any { return New(bs...) },
		Touch: func(c any) {
			r := c.(*List[int])
			if r.Size() > 0 {
				x, _ := r.Get(0)
				r.Set(0, x+1)
				r.Swap(0, r.Size()-1)
			}
			r.Add(v.Int("t"))
			r.Remove(0)
		},
	})
}

// VHSnap: returned slices are snapshots, argument slices are copied, GetSortedValues leaves the container alone (C16).
func VHSnap() {
	c, _ := VGList()
	containers.VSnapStep(containers.VSnap{C: c, Mutate: []func(){c.Clear, func() { c.Add(v.Int("m")) }, func() { c.Remove(0) }, func() { c.Set(0, v.Int("m")) }, func() { c.Swap(0, c.Size()-1) }, func() { c.Sort(func(a, b int) int { return b - a }) }}, AddArgs: []func([]int){func(a []int) { c.Add(a...) }, func(a []int) { c.Append(a...) }, func(a []int) { c.Prepend(a...) }, func(a []int) { c.Insert(0, a...) }}, New: func(a []int) containers.Container[int] { return New(a...) }})
}

var _ = vl.Less

func vJSON(c *List[int]) containers.VJSON {
	return containers.VJSON{C: c, ToJSON: c.ToJSON, FromJSON: c.FromJSON,
		Marshal: func() ([]byte, error) { return json.Marshal(c) },
		Unmarshal: func(data []byte) error { return json.Unmarshal(data, c) },
		Inv:     func() { VInv(c) },
		Step:    func() { x := v.Int("sx"); c.Add(x); y, ok := c.Get(c.Size() - 1); v.Assert(v.And(ok, y == x), "C12:add-after-load") },
		Fresh:   func() containers.VJSON { return vJSON(New[int]()) },
		Ref: func(ks, xs []int) ([]int, []int) { return nil, xs },
	}
}

// VHJSONRound: ToJSON / json.Marshal / FromJSON round trip from an arbitrary state (C11).
func VHJSONRound() {
	c, _ := VGList()
	containers.VJSONRound(vJSON(c))
}

// VHJSONLoad: FromJSON of an arbitrary document into an arbitrary prior state (C12, C17).
func VHJSONLoad() {
	c, _ := VGList()
	containers.VJSONLoad(vJSON(c))
}

// VHHistory: D operations in a row from the constructor (see VMapHistory).
func VHHistory() {
	init := vl.InitArgs()
	l := New[int](init...)
	lists.VSeqHistoryFrom(l, append([]int{}, init...), lists.VExt{Name: "DoublyLinkedList", Append: l.Append, Prepend: l.Prepend, IndexOf: l.IndexOf, Inv: func() { VInv(l) }})
}

// VGStrListOf builds the list of strings holding exactly vals.
func VGStrListOf(vals []string) *List[string] {
	l := &List[string]{size: len(vals)}
	var prev *element[string]
	for _, x := range vals {
		e := &element[string]{value: x, prev: prev}
		if prev == nil {
			l.first = e
		} else {
			prev.next = e
		}
		prev = e
	}
	l.last = prev
	return l
}
