package arraylist

import (
	vl "github.com/emirpasic/gods/v2/zzvlib"
	"encoding/json"
	"github.com/emirpasic/gods/v2/containers"
	"github.com/emirpasic/gods/v2/lists"
	v "github.com/emirpasic/gods/v2/zzvsup"
)

// VGList is an arbitrary ArrayList state: length n <= N, capacity n+spare, spare <= S, arbitrary cells
// (also beyond the length: the invariant assumed is only 0 <= len <= cap).
func VGList() (*List[int], []int) {
	n := v.Split(v.IntIn("n", v.CfgOr("lo", 0), v.CfgOr("N", 3)), 0, 64)
	spare := v.Split(v.IntIn("spare", 0, v.CfgOr("S", 2)), 0, 16)
	l := &List[int]{}
	if n+spare > 0 || v.Bool("nonnil") {
		l.elements = make([]int, n+spare)
		for i := 0; i < n+spare; i++ {
			l.elements[i] = v.Int("e")
		}
		l.elements = l.elements[:n]
	}
	pre := make([]int, n)
	copy(pre, l.elements)
	return l, pre
}

func VHListStep() {
	l, pre := VGList()
	lists.VSeqStep(l, pre, lists.VExt{Name: "ArrayList",
		Append:  func(vs ...int) { l.Add(vs...) },
		Prepend: func(vs ...int) { l.Insert(0, vs...) },
		IndexOf: l.IndexOf,
		Inv: func() {
			v.Assert(len(l.elements) <= cap(l.elements), "inv-len-cap")
		},
	})
}

func VHIter() {
	l, pre := VGList()
	containers.VIterStep(func() containers.IteratorWithIndex[int] { return l.Iterator() }, pre, l)
}

// VHEnum: Each/Any/All/Find/Select/Map with arbitrary predicate and mapping functions (C14).
func VHEnum() {
	l, _ := VGList()
	containers.VEnumStep(containers.VEnum{Recv: l, Inv: func(c any) { r := c.(*List[int]); v.Assert(len(r.elements) <= cap(r.elements), "inv-len-cap") }, Indexed: true,
		Seq:    func(c any) ([]int, []int) { vs := c.(*List[int]).Values(); return containers.VIdx(len(vs)), vs },
		Each:   l.Each, Any: l.Any, All: l.All, Find: l.Find,
		Select: func(f func(a, b int) bool) any { return l.Select(f) },
		Map: func(f func(a, b int) (int, int)) any {
			return l.Map(func(i, x int) int { _, y := f(i, x); return y })
		},
		Build: func(as, bs []int) any { return New(bs...) },
		Touch: func(c any) {
			r := c.(*List[int])
			if r.Size() > 0 {
				x, _ := r.Get(0)
				r.Set(0, x+1)
				r.Swap(0, r.Size()-1)
			}
			r.Add(v.Int("t"))
			r.Remove(0)
		},
	})
}

// VHSnap: returned slices are snapshots, argument slices are copied, GetSortedValues leaves the container alone (C16).
func VHSnap() {
	c, _ := VGList()
	containers.VSnapStep(containers.VSnap{C: c, Mutate: []func(){c.Clear, func() { c.Add(v.Int("m")) }, func() { c.Remove(0) }, func() { c.Set(0, v.Int("m")) }, func() { c.Swap(0, c.Size()-1) }, func() { c.Sort(func(a, b int) int { return b - a }) }}, AddArgs: []func([]int){func(a []int) { c.Add(a...) }, func(a []int) { c.Insert(0, a...) }, func(a []int) { c.Insert(c.Size(), a...) }}, New: func(a []int) containers.Container[int] { return New(a...) }})
}

var _ = vl.Less

func vJSON(c *List[int]) containers.VJSON {
	return containers.VJSON{C: c, ToJSON: c.ToJSON, FromJSON: c.FromJSON,
		Marshal: func() ([]byte, error) { return json.Marshal(c) },
		Unmarshal: func(data []byte) error { return json.Unmarshal(data, c) },
		Inv:     func() { v.Assert(len(c.elements) <= cap(c.elements), "inv-len-cap") },
		Step:    func() { x := v.Int("sx"); c.Add(x); y, ok := c.Get(c.Size() - 1); v.Assert(v.And(ok, y == x), "C12:add-after-load") },
		Fresh:   func() containers.VJSON { return vJSON(New[int]()) },
		Ref: func(ks, xs []int) ([]int, []int) { return nil, xs },
	}
}

// VHJSONRound: ToJSON / json.Marshal / FromJSON round trip from an arbitrary state (C11).
func VHJSONRound() {
	c, _ := VGList()
	containers.VJSONRound(vJSON(c))
}

// VHJSONLoad: FromJSON of an arbitrary document into an arbitrary prior state (C12, C17).
func VHJSONLoad() {
	c, _ := VGList()
	containers.VJSONLoad(vJSON(c))
}

// VHHistory: D operations in a row from the constructor (see VMapHistory).
func VHHistory() {
	init := vl.InitArgs()
	l := New[int](init...)
	lists.VSeqHistoryFrom(l, append([]int{}, init...), lists.VExt{Name: "ArrayList",
		Append:  func(vs ...int) { l.Add(vs...) },
		Prepend: func(vs ...int) { l.Insert(0, vs...) },
		IndexOf: l.IndexOf,
		Inv:     func() { v.Assert(len(l.elements) <= cap(l.elements), "inv-len-cap") },
	})
}
