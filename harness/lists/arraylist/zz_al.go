package arraylist

import (
	"github.com/emirpasic/gods/v2/containers"
	"github.com/emirpasic/gods/v2/lists"
	v "github.com/emirpasic/gods/v2/zzvsup"
)

// VGList is an arbitrary ArrayList state: length n <= N, capacity n+spare, spare <= S, arbitrary cells
// (also beyond the length: the invariant assumed is only 0 <= len <= cap).
func VGList() (*List[int], []int) {
	n := v.Split(v.IntIn("n", 0, v.CfgOr("N", 3)), 0, 16)
	spare := v.Split(v.IntIn("spare", 0, v.CfgOr("S", 2)), 0, 16)
	l := &List[int]{}
	if n+spare > 0 || v.Bool("nonnil") {
		l.elements = make([]int, n+spare)
		for i := 0; i < n+spare; i++ {
			l.elements[i] = v.Int("e")
		}
		l.elements = l.elements[:n]
	}
	pre := make([]int, n)
	copy(pre, l.elements)
	return l, pre
}

func VHListStep() {
	l, pre := VGList()
	lists.VSeqStep(l, pre, lists.VExt{
		Append:  func(vs ...int) { l.Add(vs...) },
		Prepend: func(vs ...int) { l.Insert(0, vs...) },
		IndexOf: l.IndexOf,
		Inv: func() {
			v.Assert(len(l.elements) <= cap(l.elements), "inv-len-cap")
		},
	})
}

func VHIter() {
	l, pre := VGList()
	containers.VIterStep(func() containers.IteratorWithIndex[int] { return l.Iterator() }, pre, l)
}
