package containers

import (
	v "github.com/emirpasic/gods/v2/zzvsup"
)

// VEnum presents an enumerable container to the shared harness of property C14. Positions carry (a, b) =
// (index or key, value). Seq returns the current iterator sequence of a container of the same kind.
type VEnum struct {
	Recv   any
	Seq    func(c any) (as, bs []int)
	Each   func(f func(a, b int))
	Any    func(f func(a, b int) bool) bool
	All    func(f func(a, b int) bool) bool
	Find   func(f func(a, b int) bool) (int, int)
	Select func(f func(a, b int) bool) any
	Map    func(f func(a, b int) (int, int)) any
	// Build inserts the pairs, in order, into a fresh container of the same kind and configuration through the
	// public API (Add / Put) and returns it: the reference for what Select and Map must produce.
	Build func(as, bs []int) any
	// Touch mutates a result container (the receiver must not notice).
	Touch   func(c any)
	// Inv asserts the representation invariant of a container of this kind (results must be sound containers too).
	Inv     func(c any)
	Indexed bool // index-based: a is the position; Find's not-found result is (-1, 0)
}

const (
	VEnEach = iota
	VEnAny
	VEnAll
	VEnFind
	VEnSelect
	VEnMap
	VEnCount
)

func vP(a, b int) bool         { return v.Pred("p", a, b) }
func vM(a, b int) (int, int)   { return v.Fn("mk", a, b), v.Fn("mv", a, b) }
func vSame(as, bs, cs, ds []int, label string) {
	v.Assert(len(as) == len(cs), label+"-length")
	if len(as) != len(cs) || len(bs) != len(ds) {
		return
	}
	for i := range as {
		v.Assert(as[i] == cs[i], label+"-index-or-key")
		v.Assert(bs[i] == ds[i], label+"-value")
	}
}

// VEnumStep: one enumerable function with an arbitrary (uninterpreted) predicate / mapping function, against
// the iterator sequence (as, bs) of the receiver (C14); the receiver is not written (C18) and the result shares
// no object with it.
func VEnumStep(e VEnum) {
	op := v.CfgOr("op", -1)
	if op < 0 {
		op = v.Split(v.IntIn("op", 0, VEnCount-1), 0, VEnCount-1)
	}
	as, bs := e.Seq(e.Recv)
	n := len(as)
	var result any
	v.BeginOp(true, e.Recv)
	switch op {
	case VEnEach:
		var la, lb []int
		e.Each(func(a, b int) { la, lb = append(la, a), append(lb, b) })
		vSame(la, lb, as, bs, "C14:each-visits-iterator-sequence")
	case VEnAny:
		got := e.Any(vP)
		exp := false
		for i := 0; i < n; i++ {
			exp = v.Or(exp, vP(as[i], bs[i]))
		}
		v.Assert(got == exp, "C14:any-is-exists")
	case VEnAll:
		got := e.All(vP)
		exp := true
		for i := 0; i < n; i++ {
			exp = v.And(exp, vP(as[i], bs[i]))
		}
		v.Assert(got == exp, "C14:all-is-forall")
	case VEnFind:
		ga, gb := e.Find(vP)
		first := -1
		for i := n - 1; i >= 0; i-- {
			if vP(as[i], bs[i]) {
				first = i
			}
		}
		if first >= 0 {
			v.Assert(v.And(ga == as[first], gb == bs[first]), "C14:find-is-first-match")
		} else if e.Indexed {
			v.Assert(v.And(ga == -1, gb == 0), "C14:find-nothing-is-minus-one-zero")
		} else {
			v.Assert(v.And(ga == 0, gb == 0), "C14:find-nothing-is-zero-zero")
		}
	case VEnSelect:
		result = e.Select(vP)
		var sa, sb []int
		for i := 0; i < n; i++ {
			if vP(as[i], bs[i]) {
				sa, sb = append(sa, as[i]), append(sb, bs[i])
			}
		}
		ra, rb := e.Seq(result)
		ea, eb := e.Seq(e.Build(sa, sb))
		vSame(ra, rb, ea, eb, "C14:select-keeps-matching-elements-in-order")
	case VEnMap:
		result = e.Map(vM)
		ma, mb := make([]int, n), make([]int, n)
		for i := 0; i < n; i++ {
			ma[i], mb[i] = vM(as[i], bs[i])
		}
		ra, rb := e.Seq(result)
		ea, eb := e.Seq(e.Build(ma, mb))
		vSame(ra, rb, ea, eb, "C14:map-is-sequential-insertion-of-mapped-elements")
	}
	v.EndOp()
	as2, bs2 := e.Seq(e.Recv)
	vSame(as2, bs2, as, bs, "C14,C18:receiver-unchanged")
	if result != nil {
		if e.Inv != nil {
			e.Inv(result)
		}
		v.Assert(!v.SameObject(result, e.Recv), "C14:result-is-the-receiver")
		v.Assert(v.Disjoint(result, e.Recv), "C14:result-shares-state-with-receiver")
		e.Touch(result)
		as3, bs3 := e.Seq(e.Recv)
		vSame(as3, bs3, as, bs, "C14:receiver-changed-when-result-was-mutated")
	}
}

// VIdx is 0..n-1.
func VIdx(n int) []int {
	r := make([]int, n)
	for i := range r {
		r[i] = i
	}
	return r
}
