package containers

import (
	"strings"

	v "github.com/emirpasic/gods/v2/zzvsup"
)

// VLin describes a stack or queue to the shared step harness of property C05.
type VLin struct {
	C    Container[int]
	Push func(x int)
	Pop  func() (int, bool)
	Peek func() (int, bool)
	LIFO bool
	Cap  int    // 0 = unbounded; otherwise a bounded FIFO that drops the oldest element when full
	Full func() bool
	Inv  func() // representation invariant (assertions)
	Name string // what String() begins with
}

const (
	VLinPush = iota
	VLinPop
	VLinPeek
	VLinClear
	VLinObservers
	VLinString
	VLinCount
)

// VLinStep runs one operation on a stack/queue whose abstract content, listed in removal order, is pre.
func VLinStep(q VLin, pre []int) []int {
	op := v.CfgOr("op", -1)
	if op < 0 {
		op = v.Split(v.IntIn("op", 0, VLinCount-1), 0, VLinCount-1)
	}
	n := len(pre)
	want := pre
	switch op {
	case VLinPush:
		x := v.Int("x")
		q.Push(x)
		if q.LIFO {
			want = append([]int{x}, pre...)
		} else if q.Cap > 0 && n == q.Cap {
			want = append(append([]int{}, pre[1:]...), x)
		} else {
			want = append(append([]int{}, pre...), x)
		}
	case VLinPop:
		got, ok := q.Pop()
		if n == 0 {
			v.Assert(!ok, "C05:pop-empty-ok")
			v.Assert(got == 0, "C05:pop-empty-zero")
		} else {
			v.Assert(ok, "C05:pop-ok")
			v.Assert(got == pre[0], "C05:pop-value")
			want = pre[1:]
		}
	case VLinPeek:
		v.BeginOp(true, q.C)
		got, ok := q.Peek()
		v.EndOp()
		if n == 0 {
			v.Assert(!ok, "C05:peek-empty-ok")
			v.Assert(got == 0, "C05:peek-empty-zero")
		} else {
			v.Assert(ok, "C05:peek-ok")
			v.Assert(got == pre[0], "C05:peek-value")
		}
	case VLinClear:
		q.C.Clear()
		want = []int{}
	case VLinObservers:
	case VLinString:
		v.BeginOp(true, q.C)
		s := q.C.String()
		v.EndOp()
		v.Assert(strings.HasPrefix(s, q.Name), "C15:string-begins-with-container-name")
	}
	q.Inv()
	v.BeginOp(true, q.C)
	got := q.C.Values()
	_, _ = q.C.Size(), q.C.Empty()
	if q.Full != nil {
		_ = q.Full()
	}
	v.EndOp()
	v.Assert(len(got) == len(want), "C05:values-length")
	if len(got) == len(want) {
		for i := 0; i < len(want); i++ {
			v.Assert(got[i] == want[i], "C05:values")
		}
	}
	sz := q.C.Size()
	v.Assert(sz == len(want), "C05:size")
	v.Assert(sz == len(got), "C15:size-values")
	v.Assert(sz >= 0, "C15:size-nonneg")
	v.Assert(q.C.Empty() == (sz == 0), "C15:empty")
	if q.Full != nil {
		v.Assert(q.Full() == (sz == q.Cap), "C05:full")
	}
	return want
}

// VLinHistory: D operations in a row from a freshly constructed stack/queue.
func VLinHistory(q VLin) {
	var seq []int
	D := v.CfgOr("D", 3)
	for i := 0; i < D; i++ {
		seq = VLinStep(q, seq)
	}
}
