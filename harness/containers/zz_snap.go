package containers

import (
	"cmp"

	v "github.com/emirpasic/gods/v2/zzvsup"
)

// VSnap presents a container to the snapshot/copy harness of property C16.
type VSnap struct {
	C       Container[int]
	Keys    func() []int         // maps and trees
	Mutate  []func()             // mutations of the container (one is chosen)
	AddArgs []func(args []int)   // variadic entry points taking a caller-owned slice (one is chosen)
	New     func(args []int) Container[int] // variadic constructor, if any
	Hash    bool                 // enumeration order not fixed (hash containers): compare as multisets
}

func vClone(s []int) []int { return append([]int{}, s...) }

func vCnt(s []int, x int) int {
	c := 0
	for i := range s {
		c = c + v.Ite(s[i] == x, 1, 0)
	}
	return c
}

func vEq(g VSnap, a, b []int, label string) {
	v.Assert(len(a) == len(b), label)
	if len(a) != len(b) {
		return
	}
	if g.Hash {
		q := v.Int("q")
		v.Assert(vCnt(a, q) == vCnt(b, q), label)
		return
	}
	for i := range a {
		v.Assert(a[i] == b[i], label)
	}
}

func vScribble(s []int) {
	if len(s) > 0 {
		i := v.IntIn("wi", 0, len(s)-1)
		s[i] = v.Int("wx")
	}
	if cap(s) > len(s) {
		s = append(s, v.Int("wa")) // append within spare capacity
	}
	_ = s
}

const (
	VSnWriteValues = iota
	VSnWriteKeys
	VSnMutateAfterValues
	VSnMutateAfterKeys
	VSnArgs
	VSnCtorArgs
	VSnSorted
	VSnSortedFunc
	VSnCount
)

// VSnapStep: returned slices are snapshots, argument slices are copied, GetSortedValues does not disturb (C16).
func VSnapStep(g VSnap) {
	op := v.CfgOr("op", -1)
	if op < 0 {
		op = v.Split(v.IntIn("op", 0, VSnCount-1), 0, VSnCount-1)
	}
	before := vClone(g.C.Values())
	var kbefore []int
	if g.Keys != nil {
		kbefore = vClone(g.Keys())
	}
	switch op {
	case VSnWriteValues:
		vs := g.C.Values()
		v.Assert(v.Disjoint(vs, g.C), "C16:values-slice-shares-memory-with-container")
		vScribble(vs)
	case VSnWriteKeys:
		if g.Keys == nil {
			v.Assume(false)
		}
		ks := g.Keys()
		v.Assert(v.Disjoint(ks, g.C), "C16:keys-slice-shares-memory-with-container")
		vScribble(ks)
	case VSnMutateAfterValues, VSnMutateAfterKeys:
		var snap []int
		if op == VSnMutateAfterValues {
			snap = g.C.Values()
		} else {
			if g.Keys == nil {
				v.Assume(false)
			}
			snap = g.Keys()
		}
		copyOf := vClone(snap)
		// the caller may also have appended within the snapshot's spare capacity: that element is the caller's too
		var ext []int
		wa := 0
		if cap(snap) > len(snap) {
			wa = v.Int("wa")
			ext = append(snap, wa)
		}
		j := v.Split(v.IntIn("mut", 0, len(g.Mutate)-1), 0, len(g.Mutate)-1)
		g.Mutate[j]()
		if ext != nil {
			v.Assert(ext[len(ext)-1] == wa, "C16:element-appended-to-a-snapshot-overwritten-by-the-container")
		}
		v.Assert(len(snap) == len(copyOf), "C16:earlier-snapshot-changed-by-later-mutation")
		for i := range copyOf {
			v.Assert(snap[i] == copyOf[i], "C16:earlier-snapshot-changed-by-later-mutation")
		}
		return
	case VSnArgs:
		if len(g.AddArgs) == 0 {
			v.Assume(false)
		}
		j := v.Split(v.IntIn("entry", 0, len(g.AddArgs)-1), 0, len(g.AddArgs)-1)
		k := v.Split(v.IntIn("k", 1, v.CfgOr("K", 2)), 1, 8)
		args := make([]int, k, k+1)
		for i := range args {
			args[i] = v.Int("a")
		}
		g.AddArgs[j](args)
		before = vClone(g.C.Values())
		if g.Keys != nil {
			kbefore = vClone(g.Keys())
		}
		vScribble(args)
	case VSnCtorArgs:
		if g.New == nil {
			v.Assume(false)
		}
		k := v.Split(v.IntIn("k", 1, v.CfgOr("K", 2)), 1, 8)
		args := make([]int, k, k+1)
		for i := range args {
			args[i] = v.Int("a")
		}
		c := g.New(args)
		b := vClone(c.Values())
		vScribble(args)
		vEq(g, c.Values(), b, "C16:constructor-kept-the-callers-slice")
		return
	case VSnSorted, VSnSortedFunc:
		var got []int
		v.BeginOp(true, g.C)
		if op == VSnSorted {
			got = GetSortedValues[int](g.C)
		} else {
			got = GetSortedValuesFunc[int](g.C, cmp.Compare[int])
		}
		v.EndOp()
		v.Assert(len(got) == len(before), "C16:sorted-values-length")
		for i := 1; i < len(got); i++ {
			v.Assert(got[i-1] <= got[i], "C16:sorted-values-not-sorted")
		}
		p := v.Int("probe")
		v.Assert(vCnt(got, p) == vCnt(before, p), "C16:sorted-values-not-a-permutation")
		vScribble(got)
	}
	vEq(g, g.C.Values(), before, "C16:container-changed")
	if g.Keys != nil {
		vEq(g, g.Keys(), kbefore, "C16:container-keys-changed")
	}
}
