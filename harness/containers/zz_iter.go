package containers

import (
	vl "github.com/emirpasic/gods/v2/zzvlib"
	v "github.com/emirpasic/gods/v2/zzvsup"
)

// VItAPI is an iterator seen through closures, so that index- and key-based iterators share one harness.
// A() is Index() or Key(), B() is Value().
type VItAPI struct {
	Next, Prev, First, Last func() bool
	Begin, End              func()
	NextTo, PrevTo          func(f func(a, b int) bool) bool
	A, B                    func() int
	Rev                     bool
}

func VFromIndex(it IteratorWithIndex[int]) VItAPI {
	api := VItAPI{Next: it.Next, First: it.First, Begin: it.Begin, NextTo: it.NextTo, A: it.Index, B: it.Value}
	if r, ok := it.(ReverseIteratorWithIndex[int]); ok {
		api.Rev, api.Prev, api.Last, api.End, api.PrevTo = true, r.Prev, r.Last, r.End, r.PrevTo
	}
	return api
}

func VFromKey(it IteratorWithKey[int, int]) VItAPI {
	api := VItAPI{Next: it.Next, First: it.First, Begin: it.Begin, NextTo: it.NextTo, A: it.Key, B: it.Value}
	if r, ok := it.(ReverseIteratorWithKey[int, int]); ok {
		api.Rev, api.Prev, api.Last, api.End, api.PrevTo = true, r.Prev, r.Last, r.End, r.PrevTo
	}
	return api
}

// vCursor is the model of property C08: a position in -1..n over the pairs (as[j], bs[j]).
type vCursor struct {
	as, bs []int
	p      int
}

func (c *vCursor) in() bool { return c.p >= 0 && c.p < len(c.as) }

// apply runs op on the model and returns the expected result.
func (c *vCursor) apply(op int) bool {
	n := len(c.as)
	switch op {
	case vl.ItNext:
		if c.p < n {
			c.p++
		}
	case vl.ItPrev:
		if c.p >= 0 {
			c.p--
		}
	case vl.ItBegin:
		c.p = -1
		return false
	case vl.ItEnd:
		c.p = n
		return false
	case vl.ItFirst:
		c.p = 0
		if n == 0 {
			c.p = n
		}
	case vl.ItLast:
		c.p = n - 1
	case vl.ItNextTo:
		for {
			if c.p < n {
				c.p++
			}
			if !c.in() {
				return false
			}
			if v.Pred("p", c.as[c.p], c.bs[c.p]) {
				return true
			}
		}
	case vl.ItPrevTo:
		for {
			if c.p >= 0 {
				c.p--
			}
			if !c.in() {
				return false
			}
			if v.Pred("p", c.as[c.p], c.bs[c.p]) {
				return true
			}
		}
	}
	return c.in()
}

func vPred(a int, b int) bool { return v.Pred("p", a, b) }

func vDo(it VItAPI, op int) bool {
	switch op {
	case vl.ItNext:
		return it.Next()
	case vl.ItBegin:
		it.Begin()
		return false
	case vl.ItFirst:
		return it.First()
	case vl.ItNextTo:
		return it.NextTo(vPred)
	}
	if !it.Rev {
		v.Assume(false)
	}
	switch op {
	case vl.ItPrev:
		return it.Prev()
	case vl.ItEnd:
		it.End()
	case vl.ItLast:
		return it.Last()
	case vl.ItPrevTo:
		return it.PrevTo(vPred)
	}
	return false
}

// VIterStep: index-based iterator over the sequence seq (positions carry (j, seq[j])).
func VIterStep(mk func() IteratorWithIndex[int], seq []int, roots ...any) {
	idx := make([]int, len(seq))
	for j := range idx {
		idx[j] = j
	}
	VIterStepAPI(func() VItAPI { return VFromIndex(mk()) }, idx, seq, roots...)
}

// VKeyIterStep: key-based iterator over the pairs (keys[j], vals[j]).
func VKeyIterStep(mk func() IteratorWithKey[int, int], keys, vals []int, roots ...any) {
	VIterStepAPI(func() VItAPI { return VFromKey(mk()) }, keys, vals, roots...)
}

// VIterStepAPI: the iterator is brought to an arbitrary position p of -1..n (forwards from Begin, or backwards
// from End when the iterator is reversible), then ONE arbitrary call is made and checked against the cursor
// model; a second arbitrary Next/Prev probes the state the call left behind (C08). roots are the objects that
// must not be written (C18: iteration with a fresh iterator is read-only).
func VIterStepAPI(mk func() VItAPI, as, bs []int, roots ...any) {
	n := len(as)
	v.BeginOp(true, roots...)
	it := mk()
	op := v.CfgOr("op", -1)
	if op < 0 {
		op = v.Split(v.IntIn("op", 0, vl.ItPrevTo), 0, vl.ItPrevTo)
	}
	p := v.Split(v.IntIn("pos", -1, n), -1, n)
	c := &vCursor{as: as, bs: bs, p: -1}
	if it.Rev && v.Bool("viaEnd") {
		vDo(it, vl.ItEnd)
		c.apply(vl.ItEnd)
		for c.p > p {
			got, want := vDo(it, vl.ItPrev), c.apply(vl.ItPrev)
			v.Assert(got == want, "C08:prev-result-while-positioning")
		}
	} else {
		for c.p < p {
			got, want := vDo(it, vl.ItNext), c.apply(vl.ItNext)
			v.Assert(got == want, "C08:next-result-while-positioning")
		}
	}
	got, want := vDo(it, op), c.apply(op)
	if op != vl.ItBegin && op != vl.ItEnd {
		v.Assert(got == want, "C08:result")
	}
	if c.in() && got {
		v.Assert(it.A() == as[c.p], "C08:index-or-key-of-position")
		v.Assert(it.B() == bs[c.p], "C08:value-of-position")
	}
	// probe the state left behind with one more step in an arbitrary direction
	pop := vl.ItNext
	if it.Rev && v.Bool("probePrev") {
		pop = vl.ItPrev
	}
	got, want = vDo(it, pop), c.apply(pop)
	v.Assert(got == want, "C08:result-of-following-step")
	if c.in() && got {
		v.Assert(it.A() == as[c.p], "C08:index-or-key-after-following-step")
		v.Assert(it.B() == bs[c.p], "C08:value-after-following-step")
	}
	v.EndOp()
}
