package containers

import (
	vl "github.com/emirpasic/gods/v2/zzvlib"
	v "github.com/emirpasic/gods/v2/zzvsup"
)

// VJSON presents a container to the serialization harnesses of properties C11 and C12.
type VJSON struct {
	C        Container[int]
	ToJSON   func() ([]byte, error)
	FromJSON func([]byte) error
	Marshal  func() ([]byte, error) // json.Marshal(container)
	Unmarshal func([]byte) error    // json.Unmarshal(data, container)
	Keys     func() []int           // key-value containers
	Get      func(k int) (int, bool) // key-value containers: values are read per key (Keys()/Values() of hash maps are not aligned)
	Object   bool                   // serializes as a JSON object
	Hash     bool                   // enumeration order not fixed
	Multiset bool                   // heap: only the multiset of contents and the drain order are defined
	Strs     bool                   // keys and values are strings (atoms): documents are built with JSONDocS
	Digits   bool                   // LinkedHashMap: the exact bytes.Index model needs single-digit keys and values
	Bidi     bool
	Inv      func()
	Drain    func() []int // removes everything, in removal order (stacks, queues, heaps); nil otherwise
	Step     func()       // one further mutation with arbitrary arguments (must keep working after a load)
	// Ref: the enumeration (Keys, Values) a container of this kind has after loading the document (keys, vals)
	Ref   func(keys, vals []int) ([]int, []int)
	Fresh func() VJSON // a fresh, empty container of the same type and configuration
}

func vSeq(g VJSON) ([]int, []int) {
	if g.Keys == nil {
		return nil, vClone(g.C.Values())
	}
	ks := vClone(g.Keys())
	xs := make([]int, len(ks))
	for i, k := range ks {
		x, ok := g.Get(k)
		v.Assert(ok, "C01:listed-key-not-found")
		xs[i] = x
	}
	v.Assert(len(g.C.Values()) == len(ks), "C15:len-values-is-len-keys")
	return ks, xs
}

func vCntPair(ks, xs []int, k, x int) int {
	c := 0
	for i := range xs {
		hit := xs[i] == x
		if ks != nil {
			hit = v.And(hit, ks[i] == k)
		}
		c = c + v.Ite(hit, 1, 0)
	}
	return c
}

// vSameContent: same enumeration (ordered containers) or same multiset of elements / pairs (hash containers, heaps).
func vSameContent(g VJSON, ak, ax, bk, bx []int, label string) {
	v.Assert(len(ax) == len(bx), label+"-size")
	if len(ax) != len(bx) || (ak != nil && (len(ak) != len(ax) || len(bk) != len(bx))) {
		if ak != nil {
			v.Assert(len(ak) == len(ax) && len(bk) == len(bx), label+"-keys-size")
		}
		return
	}
	if g.Hash || g.Multiset {
		pk, px := v.Int("pk"), v.Int("px")
		v.Assert(vCntPair(ak, ax, pk, px) == vCntPair(bk, bx, pk, px), label+"-contents")
		return
	}
	for i := range ax {
		if ak != nil {
			v.Assert(ak[i] == bk[i], label+"-key-order")
		}
		v.Assert(ax[i] == bx[i], label+"-order")
	}
}

// VJSONRound: ToJSON gives valid JSON of the right kind, equal to json.Marshal(container); loading it into a fresh
// container of the same configuration gives an equivalent container (C11).
func VJSONRound(g VJSON) {
	ks, xs := vSeq(g)
	v.BeginOp(true, g.C)
	data, err := g.ToJSON()
	v.EndOp()
	v.Assert(err == nil, "C11:tojson-error")
	if err != nil {
		return
	}
	kind := v.JSONKind(data)
	want := 4
	if g.Object {
		want = 5
		v.Assert(kind == 5, "C11:tojson-is-not-a-json-object")
	} else {
		v.Assert(kind == 4, "C11:tojson-is-not-a-json-array")
	}
	if kind != want {
		return // not the right kind of document: nothing to load
	}
	f := g.Fresh()
	err = f.FromJSON(data)
	v.Assert(err == nil, "C11:own-output-rejected")
	if err != nil {
		return
	}
	f.Inv()
	fk, fx := vSeq(f)
	vSameContent(g, fk, fx, ks, xs, "C11:round-trip")
	// json.Marshal(container) is the same document: it loads to the same content
	m, err := g.Marshal()
	v.Assert(err == nil, "C11:marshal-error")
	if err == nil {
		f2 := g.Fresh()
		err = f2.FromJSON(m)
		v.Assert(err == nil, "C11:marshal-output-rejected")
		if err == nil {
			f2k, f2x := vSeq(f2)
			vSameContent(g, f2k, f2x, ks, xs, "C11:marshal-differs-from-tojson")
		}
	}
	// json.Unmarshal(data, container) is the same as FromJSON
	f3 := g.Fresh()
	err = f3.Unmarshal(data)
	v.Assert(err == nil, "C11:json-unmarshal-rejects-own-output")
	if err == nil {
		f3.Inv()
		f3k, f3x := vSeq(f3)
		vSameContent(g, f3k, f3x, ks, xs, "C11:json-unmarshal-differs-from-fromjson")
	}
	// same subsequent Pop/Dequeue sequence
	if g.Drain != nil {
		a, b := g.Drain(), f.Drain()
		v.Assert(len(a) == len(b), "C11:drain-length")
		if len(a) == len(b) {
			for i := range a {
				v.Assert(a[i] == b[i], "C11:drain-sequence") // "the same subsequent Pop/Dequeue sequence": also among ties
			}
		}
	}
}

// vKeysInequivalent: keys that differ are also different under the configured comparator (always true for == keys).
func vKeysInequivalent(keys []int) bool {
	for i := range keys {
		for j := i + 1; j < len(keys); j++ {
			if keys[i] != keys[j] && vl.Equiv(keys[i], keys[j]) {
				return false
			}
		}
	}
	return true
}

// VJSONLoad: FromJSON of an arbitrary document (every class of the codec's contract) into an arbitrary prior
// state: on success the content is exactly what the document denotes and the container stays sound; on error
// the container is untouched (C12). Whatever happens, one further operation works (C17).
func VJSONLoad(g VJSON) {
	class := v.Split(v.IntIn("class", 0, 5), 0, 5)
	d := 0
	bad := -1
	if class >= 4 {
		d = v.Split(v.IntIn("d", 0, v.CfgOr("L", 3)), 0, 8)
		bad = v.Split(v.IntIn("bad", -1, d-1), -1, d-1)
	}
	keys, vals := make([]int, d), make([]int, d)
	for i := 0; i < d; i++ {
		keys[i], vals[i] = v.Int("jk"), v.Int("jv")
		if g.Digits {
			v.Assume(v.And(v.And(keys[i] >= 0, keys[i] <= 9), v.And(vals[i] >= 0, vals[i] <= 9)))
		}
	}
	var in []byte
	if g.Strs {
		sk, sx := make([]string, d), make([]string, d)
		for i := 0; i < d; i++ {
			v.Assume(v.And(v.And(keys[i] >= 1, keys[i] <= 1<<40), v.And(vals[i] >= 1, vals[i] <= 1<<40)))
			sk[i], sx[i] = v.StrOf(keys[i]), v.StrOf(vals[i])
		}
		in = v.JSONDocS(class, sk, sx, bad)
	} else {
		in = v.JSONDoc(class, keys, vals, bad)
	}
	bk, bx := vSeq(g)
	v.Track(g.C)
	err := g.FromJSON(in)
	if err != nil {
		v.Assert(!v.Changed(), "C12:error-but-container-modified")
		ak, ax := vSeq(g)
		vSameContent(g, ak, ax, bk, bx, "C12:error-but-content-changed")
		g.Inv()
		g.Step()
		g.Inv()
		return
	}
	g.Inv()
	ak, ax := vSeq(g)
	wantKind := 4
	if g.Object {
		wantKind = 5
	}
	switch {
	case class == 2:
		v.Assert(len(ax) == 0, "C12,C06:null-leaves-prior-content")
	case class == wantKind && bad < 0:
		if g.Bidi {
			// the surviving pairs of a one-to-one load depend on Go's map iteration order when values collide;
			// with pairwise distinct values the result is exact
			dk, dx := vl.LastPerKey(keys, vals)
			distinct := vKeysInequivalent(keys) // (and distinct keys that the key comparator treats as one key)
			for i := range dx {
				for j := i + 1; j < len(dx); j++ {
					if dx[i] == dx[j] {
						distinct = false
					}
				}
			}
			if distinct {
				ek, ex := g.Ref(keys, vals)
				vSameContent(g, ak, ax, ek, ex, "C12,C06:loaded-content")
			} else {
				v.Assert(len(ax) <= len(dk), "C12,C06,C10:prior-content-survived")
			}
		} else if g.Object && !vKeysInequivalent(keys) {
			// distinct document keys that the container's comparator treats as one key: which of their values
			// survives depends on Go's map iteration order; only "nothing else survives" is exact
			dk, _ := vl.LastPerKey(keys, vals)
			v.Assert(len(ax) < len(dk), "C12,C06:prior-content-survived")
		} else {
			ek, ex := g.Ref(keys, vals)
			vSameContent(g, ak, ax, ek, ex, "C12,C06:loaded-content")
		}
	default:
		v.Assert(false, "C12:accepted-a-document-of-the-wrong-kind-or-type")
	}
	v.Assert(g.C.Size() == len(ax), "C12,C15:size-after-load")
	g.Step()
	g.Inv()
}
