// Package vlib: harness helpers written in ordinary Go on top of the vsup intrinsics (shared by the
// symbolic engine and the native replay): comparator family, in-order item sequences and their diffs.
package vlib

import (

	v "github.com/emirpasic/gods/v2/zzvsup"
)

// Comparator family (configuration "cmp"): 0 natural, 1 reversed, 2 coarsened (x>>2: many keys compare equal),
// 3 generic: keys are compared by an UNINTERPRETED rank function rank: int -> int chosen by the solver. Every strict
// weak order on a finite set of keys is induced by some rank function into the integers (and every rank function
// induces one), so on each path, which only ever compares finitely many key terms, this is "any comparator that is a
// strict weak order" - natural, reversed, coarsened, by-absolute-value, by-parity, ... are all instances.

func key(x int) int {
	switch v.CfgOr("cmp", 0) {
	case 2:
		return x >> 2
	case 3:
		return v.Fn("rank", x, 0)
	}
	return x
}

// order override for structures that carry their own comparator (the value tree of a TreeBidiMap):
// 0 none (configuration "cmp"), 1 natural, 2 reversed natural
var orderOverride int

// WithOrder runs f with Less/Equiv meaning the given order (1 natural, 2 reversed natural).
func WithOrder(o int, f func()) {
	save := orderOverride
	orderOverride = o
	f()
	orderOverride = save
}

// Less is the strict order of the configured comparator as a term (no forking).
func Less(a, b int) bool {
	switch orderOverride {
	case 1:
		return a < b
	case 2:
		return b < a
	}
	if v.CfgOr("cmp", 0) == 1 {
		return key(b) < key(a)
	}
	return key(a) < key(b)
}

// Equiv: a and b compare equal under the configured comparator (term, no forking).
func Equiv(a, b int) bool {
	if orderOverride != 0 {
		return a == b
	}
	return key(a) == key(b)
}

// Cmp is the comparator handed to the library; every call is counted (property C07). Configuration "mag" is the
// magnitude of its non-zero results (a comparator need not return exactly -1/+1: `a.prio - b.prio` style).
func Cmp(a, b int) int {
	v.Tick("cmp")
	m := v.CfgOr("mag", 1)
	if m < 0 {
		// an arbitrary positive magnitude per call: every comparator of the `a - b` style at once
		m = v.IntIn("cm", 1, 1<<40)
	}
	ka, kb := key(a), key(b)
	if v.CfgOr("cmp", 0) == 1 {
		ka, kb = kb, ka
	}
	// the result is ONE term (no fork inside the comparator): a caller that only asks "> 0" forks two ways, not three
	return v.Ite(ka < kb, 0-m, v.Ite(ka > kb, m, 0))
}

// Item is one element of an in-order sequence: a forced node (K,V) or an unexpanded subtree (T != nil).
type Item struct {
	T    any
	K, V int
}

func itemEq(a, b Item) bool {
	if a.T != nil || b.T != nil {
		return a.T == b.T
	}
	return v.And(a.K == b.K, a.V == b.V)
}

func isTrue(b bool) bool { return v.Concrete(b) && b }

// trim drops the common prefix and suffix on which the two sequences agree syntactically.
func trim(pre, post []Item) ([]Item, []Item) {
	if !v.Symbolic() {
		return pre, post // natively equal values would be trimmed too; compare whole sequences instead
	}
	for len(pre) > 0 && len(post) > 0 && isTrue(itemEq(pre[0], post[0])) {
		pre, post = pre[1:], post[1:]
	}
	for len(pre) > 0 && len(post) > 0 && isTrue(itemEq(pre[len(pre)-1], post[len(post)-1])) {
		pre, post = pre[:len(pre)-1], post[:len(post)-1]
	}
	return pre, post
}

func allEq(pre, post []Item) bool {
	ok := true
	for i := range pre {
		ok = v.And(ok, itemEq(pre[i], post[i]))
	}
	return ok
}

// SeqSame: post is item-wise equal to pre.
func SeqSame(pre, post []Item, label string) {
	pre, post = trim(pre, post)
	v.Assert(len(pre) == len(post), label+"-length")
	if len(pre) == len(post) {
		v.Assert(allEq(pre, post), label)
	}
}

// SeqPut: post is pre with (k,x) inserted, or with the value of the item whose key is equivalent to k replaced by x
// (the retained key representative may be the old or the new key). Nothing else differs.
func SeqPut(pre, post []Item, k, x int, label string) {
	pre, post = trim(pre, post)
	switch {
	case len(post) == len(pre)+1:
		ok := false
		for d := 0; d < len(post); d++ {
			if post[d].T != nil {
				continue
			}
			c := v.And(post[d].K == k, post[d].V == x)
			c = v.And(c, allEq(pre[:d], post[:d]))
			c = v.And(c, allEq(pre[d:], post[d+1:]))
			ok = v.Or(ok, c)
		}
		v.Assert(ok, label+"-insert")
	case len(post) == len(pre):
		ok := false
		for d := 0; d < len(post); d++ {
			if post[d].T != nil || pre[d].T != nil {
				continue
			}
			c := v.And(Equiv(pre[d].K, k), v.And(Equiv(post[d].K, k), post[d].V == x))
			c = v.And(c, v.Or(post[d].K == k, post[d].K == pre[d].K))
			c = v.And(c, allEq(pre[:d], post[:d]))
			c = v.And(c, allEq(pre[d+1:], post[d+1:]))
			ok = v.Or(ok, c)
		}
		v.Assert(ok, label+"-update")
	default:
		v.Assert(false, label+"-length")
	}
}

// SeqRemove: post is pre without the item whose key is equivalent to k; if there is none (no forced item is
// equivalent and absent(k) holds for the unexpanded parts, which the caller asserts) nothing changes.
func SeqRemove(pre, post []Item, k int, label string) (removed bool) {
	full := pre
	pre, post = trim(pre, post)
	switch {
	case len(post) == len(pre)-1:
		ok := false
		for d := 0; d < len(pre); d++ {
			if pre[d].T != nil {
				continue
			}
			c := Equiv(pre[d].K, k)
			c = v.And(c, allEq(pre[:d], post[:d]))
			c = v.And(c, allEq(pre[d+1:], post[d:]))
			ok = v.Or(ok, c)
		}
		v.Assert(ok, label+"-remove")
		return true
	case len(post) == len(pre):
		v.Assert(allEq(pre, post), label+"-absent-unchanged")
		for _, it := range full {
			if it.T == nil {
				v.Assert(!Equiv(it.K, k), label+"-absent-but-present")
			}
		}
		return false
	default:
		v.Assert(false, label+"-length")
	}
	return false
}

// Thunk is what an unexpanded-subtree summary must offer to the navigation obligations.
type Thunk interface {
	// VOutside: every key of the subtree is <= a (if hasA) or >= b (if hasB); true for an empty subtree.
	VOutside(hasA bool, a int, hasB bool, b int) bool
}

// Outside asserts that every element of the in-order sequence lies outside the interval between a and b:
// key <= a (or < a when strictA) or key >= b (or > b when strictB). Unexpanded subtrees are judged by their
// summaries without being expanded, so a subtree the code under test skipped must be provably irrelevant.
func Outside(items []Item, hasA bool, a int, strictA bool, hasB bool, b int, strictB bool, label string) {
	for _, it := range items {
		if it.T != nil {
			v.Assert(it.T.(Thunk).VOutside(hasA, a, hasB, b), label+"-subtree")
			continue
		}
		ok := false
		if hasA {
			if strictA {
				ok = v.Or(ok, Less(it.K, a))
			} else {
				ok = v.Or(ok, !Less(a, it.K))
			}
		}
		if hasB {
			if strictB {
				ok = v.Or(ok, Less(b, it.K))
			} else {
				ok = v.Or(ok, !Less(it.K, b))
			}
		}
		v.Assert(ok, label)
	}
}

// Holds asserts that (k,x) is an element of the sequence (forced items only).
func Holds(items []Item, k, x int, label string) {
	ok := false
	for _, it := range items {
		if it.T == nil {
			ok = v.Or(ok, v.And(it.K == k, it.V == x))
		}
	}
	v.Assert(ok, label)
}

// Navigation operations (C02).
const (
	NavFloor = iota
	NavCeiling
	NavLeft
	NavRight
)

// NavCheck states C02 for one navigation call: q is the probe key, (hasNode, nk, nv) the result.
func NavCheck(op int, q int, found, hasNode bool, nk, nv int, items []Item) {
	v.Assert(found == hasNode, "C02:found-iff-node")
	if hasNode {
		Holds(items, nk, nv, "C02:result-is-an-element")
	}
	switch op {
	case NavFloor:
		if found {
			v.Assert(!Less(q, nk), "C02:floor-not-above-key")
			Outside(items, true, nk, false, true, q, true, "C02:floor-greatest")
		} else {
			Outside(items, false, 0, false, true, q, true, "C02:floor-notfound-but-exists")
		}
	case NavCeiling:
		if found {
			v.Assert(!Less(nk, q), "C02:ceiling-not-below-key")
			Outside(items, true, q, true, true, nk, false, "C02:ceiling-least")
		} else {
			Outside(items, true, q, true, false, 0, false, "C02:ceiling-notfound-but-exists")
		}
	case NavLeft:
		if found {
			Outside(items, false, 0, false, true, nk, false, "C02:left-least")
		} else {
			Outside(items, false, 0, false, false, 0, false, "C02:left-nil-but-nonempty")
		}
	case NavRight:
		if found {
			Outside(items, true, nk, false, false, 0, false, "C02:right-greatest")
		} else {
			Outside(items, false, 0, false, false, 0, false, "C02:right-nil-but-nonempty")
		}
	}
}

// Iterator operations (C08).
const (
	ItNext = iota
	ItPrev
	ItBegin
	ItEnd
	ItFirst
	ItLast
	ItNextTo
	ItPrevTo
)

// Cursor positions.
const (
	PosBegin = iota
	PosBetween
	PosEnd
)

// IterCheck states C08 for one call on a key-ordered iterator: from cursor state (pos, x) the call op returned ok
// and left the cursor at (posAfter, r). items is the container's in-order sequence.
func IterCheck(op, pos int, xk int, ok bool, hasR bool, rk, rv int, posAfter int, items []Item) {
	if op == ItBegin || op == ItEnd {
		if op == ItBegin {
			v.Assert(posAfter == PosBegin, "C08:begin-position")
		} else {
			v.Assert(posAfter == PosEnd, "C08:end-position")
		}
		v.Assert(!hasR, "C08:sentinel-has-no-element")
		return
	}
	if ok {
		v.Assert(hasR, "C08:node-after-successful-move")
		if !hasR {
			return
		}
		Holds(items, rk, rv, "C08:position-is-an-element")
	}
	forward := op == ItNext || op == ItFirst
	fromBegin := op == ItFirst || (op == ItNext && pos == PosBegin)
	fromEnd := op == ItLast || (op == ItPrev && pos == PosEnd)
	switch {
	case forward && fromBegin:
		if ok {
			Outside(items, false, 0, false, true, rk, false, "C08,C02:first-is-least")
		} else {
			Outside(items, false, 0, false, false, 0, false, "C08:next-from-begin-false-but-nonempty")
		}
	case forward && pos == PosEnd:
		v.Assert(!ok, "C08:next-saturates-at-end")
	case forward:
		if ok {
			v.Assert(Less(xk, rk), "C08,C02:next-ascends")
			Outside(items, true, xk, false, true, rk, false, "C08,C02:next-skips-nothing")
		} else {
			Outside(items, true, xk, false, false, 0, false, "C08:next-false-but-later-element")
		}
	case fromEnd:
		if ok {
			Outside(items, true, rk, false, false, 0, false, "C08,C02:last-is-greatest")
		} else {
			Outside(items, false, 0, false, false, 0, false, "C08:prev-from-end-false-but-nonempty")
		}
	case pos == PosBegin:
		v.Assert(!ok, "C08:prev-saturates-at-begin")
	default:
		if ok {
			v.Assert(Less(rk, xk), "C08,C02:prev-descends")
			Outside(items, true, rk, false, true, xk, false, "C08,C02:prev-skips-nothing")
		} else {
			Outside(items, false, 0, false, true, xk, false, "C08:prev-false-but-earlier-element")
		}
	}
	if ok {
		v.Assert(posAfter == PosBetween, "C08:position-between")
	} else if forward {
		v.Assert(v.And(posAfter == PosEnd, !hasR), "C08:position-end")
	} else {
		v.Assert(v.And(posAfter == PosBegin, !hasR), "C08:position-begin")
	}
}

// Work bounds of C07: least n+1 (resp. n+2) for which the documented comparator-call bound admits c calls.

// RBMinNPlus1: least t with 2*log2(t)+2 >= c, i.e. t*t >= 2^(c-2).
func RBMinNPlus1(c int) int {
	if c <= 2 {
		return 1
	}
	t := 1
	for t*t < 1<<(c-2) {
		t++
	}
	return t
}

// GetCheck states C01 for a lookup: (x, found) against the in-order items; absent keys must be provably absent.
func GetCheck(items []Item, k int, x int, found bool) {
	if found {
		ok := false
		for _, it := range items {
			if it.T == nil {
				ok = v.Or(ok, v.And(Equiv(it.K, k), it.V == x))
			}
		}
		v.Assert(ok, "C01:get-value")
		return
	}
	v.Assert(x == 0, "C01:get-zero")
	for _, it := range items {
		if it.T == nil {
			v.Assert(!Equiv(it.K, k), "C01:get-missed")
		} else {
			v.Assert(it.T.(Thunk).VOutside(true, k, true, k), "C01:get-missed-subtree")
		}
	}
}

// Absent: no unexpanded part can hold a key equivalent to k.
func Absent(items []Item, k int, label string) {
	for _, it := range items {
		if it.T != nil {
			v.Assert(it.T.(Thunk).VOutside(true, k, true, k), label)
		}
	}
}

// ---- sets over item sequences (C04) ----

func memberForced(items []Item, p int) bool {
	ok := false
	for _, it := range items {
		if it.T == nil {
			ok = v.Or(ok, Equiv(it.K, p))
		}
	}
	return ok
}

func among(xs []int, p int) bool {
	ok := false
	for _, x := range xs {
		ok = v.Or(ok, Equiv(x, p))
	}
	return ok
}

// sameThunks: the unexpanded parts of pre and post are the same objects in the same order.
func sameThunks(pre, post []Item, label string) {
	var a, b []any
	for _, it := range pre {
		if it.T != nil {
			a = append(a, it.T)
		}
	}
	for _, it := range post {
		if it.T != nil {
			b = append(b, it.T)
		}
	}
	v.Assert(len(a) == len(b), label+"-untouched-part-lost-or-duplicated")
	if len(a) == len(b) {
		for i := range a {
			v.Assert(a[i] == b[i], label+"-untouched-part-moved")
		}
	}
}

// SetAdd: members(post) = members(pre) + xs, for every probe element at once (the probe is a fresh symbolic value).
func SetAdd(pre, post []Item, xs []int, label string) {
	sameThunks(pre, post, label)
	for _, x := range xs {
		Absent(post, x, label+"-argument-may-be-in-unexpanded-part")
	}
	p := v.Int("probe")
	v.Assert(memberForced(post, p) == v.Or(memberForced(pre, p), among(xs, p)), label)
}

// SetRemove: members(post) = members(pre) - xs.
func SetRemove(pre, post []Item, xs []int, label string) {
	sameThunks(pre, post, label)
	for _, x := range xs {
		Absent(post, x, label+"-argument-may-be-in-unexpanded-part")
	}
	p := v.Int("probe")
	v.Assert(memberForced(post, p) == v.And(memberForced(pre, p), !among(xs, p)), label)
}

// SetContains: got = every x is a member. A "false" answer needs an argument that is provably absent
// (not among the forced items and outside every unexpanded part).
func SetContains(items []Item, xs []int, got bool, label string) {
	if got {
		exp := true
		for _, x := range xs {
			exp = v.And(exp, memberForced(items, x))
		}
		v.Assert(exp, label+"-true-but-missing")
		return
	}
	missing := false
	for _, x := range xs {
		absent := !memberForced(items, x)
		for _, it := range items {
			if it.T != nil {
				absent = v.And(absent, it.T.(Thunk).VOutside(true, x, true, x))
			}
		}
		missing = v.Or(missing, absent)
	}
	v.Assert(missing, label+"-false-but-all-present")
}

// Distinct: no two forced items are equivalent (each member listed once).
func Distinct(keys []int, label string) {
	for i := 0; i < len(keys); i++ {
		for j := i + 1; j < len(keys); j++ {
			v.Assert(!Equiv(keys[i], keys[j]), label)
		}
	}
}

// Args returns k <= K arbitrary integers (k is case-split).
func Args(tag string) []int {
	k := v.Split(v.IntIn("k", 0, v.CfgOr("K", 2)), 0, 8)
	xs := make([]int, k)
	for j := 0; j < k; j++ {
		xs[j] = v.Int(tag)
	}
	return xs
}

// InitArgs returns k <= I arbitrary integers for a constructor's initial values (none when cfg I is 0 or absent).
func InitArgs() []int {
	I := v.CfgOr("I", 0)
	if I == 0 {
		return nil
	}
	k := v.Split(v.IntIn("ik", 0, I), 0, 8)
	xs := make([]int, k)
	for j := 0; j < k; j++ {
		xs[j] = v.Int("i")
	}
	return xs
}

// KeysOf wraps plain keys as items.
func KeysOf(keys []int) []Item {
	out := make([]Item, len(keys))
	for i, k := range keys {
		out[i] = Item{K: k}
	}
	return out
}

// ---- reference denotations of JSON documents (C12), as plain Go over possibly symbolic values ----

// HasInt: x occurs in s (forks on symbolic equality, consistently with the path condition).
func HasInt(s []int, x int) bool {
	for _, y := range s {
		if Equiv(y, x) { // == unless a (coarse) comparator is configured
			return true
		}
	}
	return false
}

// DedupFirst keeps the first occurrence of every value.
func DedupFirst(vals []int) []int {
	out := []int{}
	for _, x := range vals {
		if !HasInt(out, x) {
			out = append(out, x)
		}
	}
	return out
}

// SortedDistinct: ascending under the configured comparator, equivalent values once (the last one wins).
func SortedDistinct(vals []int) []int {
	out := []int{}
	for _, x := range vals {
		pos, dup := len(out), false
		for i, y := range out {
			if Equiv(x, y) {
				pos, dup = i, true
				break
			}
			if Less(x, y) {
				pos = i
				break
			}
		}
		if dup {
			out[pos] = x
			continue
		}
		out = append(out, 0)
		copy(out[pos+1:], out[pos:])
		out[pos] = x
	}
	return out
}

// LastPerKey: keys in order of first occurrence, each with its last value.
func LastPerKey(keys, vals []int) ([]int, []int) {
	ok, ov := []int{}, []int{}
	for i, k := range keys {
		found := false
		for j := range ok {
			if ok[j] == k {
				ov[j], found = vals[i], true
				break
			}
		}
		if !found {
			ok, ov = append(ok, k), append(ov, vals[i])
		}
	}
	return ok, ov
}

// SortPairs sorts pairs by key, ascending (keys pairwise distinct).
func SortPairs(keys, vals []int) ([]int, []int) {
	ok, ov := []int{}, []int{}
	for i, k := range keys {
		pos := len(ok)
		for j, y := range ok {
			if Less(k, y) {
				pos = j
				break
			}
		}
		ok, ov = append(ok, 0), append(ov, 0)
		copy(ok[pos+1:], ok[pos:])
		copy(ov[pos+1:], ov[pos:])
		ok[pos], ov[pos] = k, vals[i]
	}
	return ok, ov
}

func Reverse(s []int) []int {
	out := make([]int, len(s))
	for i, x := range s {
		out[len(s)-1-i] = x
	}
	return out
}

func LastN(s []int, n int) []int {
	if len(s) > n {
		return s[len(s)-n:]
	}
	return s
}
