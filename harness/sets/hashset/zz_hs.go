package hashset

import (
	vl "github.com/emirpasic/gods/v2/zzvlib"
	"encoding/json"
	"github.com/emirpasic/gods/v2/containers"
	"github.com/emirpasic/gods/v2/sets"
	v "github.com/emirpasic/gods/v2/zzvsup"
)

// VGSet is an arbitrary HashSet of n <= N pairwise distinct members.
func VGSet() (*Set[int], []int) {
	n := v.Split(v.IntIn("n", 0, v.CfgOr("N", 3)), 0, 16)
	s := &Set[int]{items: make(map[int]struct{})}
	keys := make([]int, n)
	for i := 0; i < n; i++ {
		k := v.Int("e")
		for j := 0; j < i; j++ {
			v.Assume(k != keys[j])
		}
		keys[i] = k
		s.items[k] = struct{}{}
	}
	return s, keys
}

func VHSetStep() {
	s, pre := VGSet()
	sets.VSetStep(s, pre, false, "HashSet", func() { v.Assert(s.items != nil, "inv-map-nil") })
}

func vSetOnly() *Set[int] { s, _ := VGSet(); return s }

// VHAlgebra: set algebra on two arbitrary sets (C13); "alias" makes them the same object.
func VHAlgebra() {
	a := vSetOnly()
	b := a
	if !v.Bool("alias") {
		b = vSetOnly()
	}
	sets.VAlgStep(sets.VAlg{A: a, B: b, Inv: func(c any) { v.Assert(c.(*Set[int]).items != nil, "inv-map-nil") }, Has: func(c any, x int) bool { return c.(*Set[int]).Contains(x) }, Hash: true,
		Apply: func(op int) any {
			switch op {
			case 0:
				return a.Intersection(b)
			case 1:
				return a.Union(b)
			}
			return a.Difference(b)
		},
		Values: func(c any) []int { return c.(*Set[int]).Values() },
		Touch: func(c any, x int) {
			s := c.(*Set[int])
			for _, y := range s.Values() {
				s.Remove(y)
			}
			s.Add(x)
		},
	})
}

// VHSnap: returned slices are snapshots, argument slices are copied, GetSortedValues leaves the container alone (C16).
func VHSnap() {
	c, _ := VGSet()
	containers.VSnapStep(containers.VSnap{C: c, Mutate: []func(){c.Clear, func() { c.Add(v.Int("m")) }, func() { c.Remove(v.Int("m")) }}, AddArgs: []func([]int){func(a []int) { c.Add(a...) }}, Hash: true, New: func(a []int) containers.Container[int] { return New(a...) }})
}

var _ = vl.Less

func vJSON(c *Set[int]) containers.VJSON {
	return containers.VJSON{C: c, ToJSON: c.ToJSON, FromJSON: c.FromJSON,
		Marshal: func() ([]byte, error) { return json.Marshal(c) },
		Unmarshal: func(data []byte) error { return json.Unmarshal(data, c) },
		Inv:     func() { v.Assert(c.items != nil, "inv-map-nil") },
		Step:    func() { x := v.Int("sx"); c.Add(x); v.Assert(c.Contains(x), "C12:add-after-load") },
		Fresh:   func() containers.VJSON { return vJSON(New[int]()) },
		Hash: true, Ref: func(ks, xs []int) ([]int, []int) { return nil, vl.DedupFirst(xs) },
	}
}

// VHJSONRound: ToJSON / json.Marshal / FromJSON round trip from an arbitrary state (C11).
func VHJSONRound() {
	c, _ := VGSet()
	containers.VJSONRound(vJSON(c))
}

// VHJSONLoad: FromJSON of an arbitrary document into an arbitrary prior state (C12, C17).
func VHJSONLoad() {
	c, _ := VGSet()
	containers.VJSONLoad(vJSON(c))
}

// VHHistory: D operations in a row from the constructor (see VMapHistory).
func VHHistory() {
	init := vl.InitArgs()
	s := New[int](init...)
	sets.VSetHistoryFrom(s, vl.DedupFirst(init), false, "HashSet", func() { v.Assert(s.items != nil, "inv-map-nil") })
}
