package hashset

import (
	"github.com/emirpasic/gods/v2/sets"
	v "github.com/emirpasic/gods/v2/zzvsup"
)

// VGSet is an arbitrary HashSet of n <= N pairwise distinct members.
func VGSet() (*Set[int], []int) {
	n := v.Split(v.IntIn("n", 0, v.CfgOr("N", 3)), 0, 16)
	s := &Set[int]{items: make(map[int]struct{})}
	keys := make([]int, n)
	for i := 0; i < n; i++ {
		k := v.Int("e")
		for j := 0; j < i; j++ {
			v.Assume(k != keys[j])
		}
		keys[i] = k
		s.items[k] = struct{}{}
	}
	return s, keys
}

func VHSetStep() {
	s, pre := VGSet()
	sets.VSetStep(s, pre, false, func() { v.Assert(s.items != nil, "inv-map-nil") })
}
