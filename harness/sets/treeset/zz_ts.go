package treeset

import (
	"strings"
	"encoding/json"
	"github.com/emirpasic/gods/v2/sets"
	"github.com/emirpasic/gods/v2/containers"
	rbt "github.com/emirpasic/gods/v2/trees/redblacktree"
	vl "github.com/emirpasic/gods/v2/zzvlib"
	v "github.com/emirpasic/gods/v2/zzvsup"
)

func vUnit() struct{} { return struct{}{} }

// VGSet is an arbitrary TreeSet: its red-black tree is an arbitrary valid tree of height <= H.
func VGSet() (*Set[int], *rbt.VSum[struct{}]) {
	t, root := rbt.VNewTree(v.Cfg("H"), vUnit)
	return &Set[int]{tree: t}, root
}

const (
	vOpAdd = iota
	vOpRemove
	vOpContains
	vOpClear
	vOpCount
)

// VHSetStep: one variadic set operation from an arbitrary state (C04).
func VHSetStep() {
	s, root := VGSet()
	op := v.CfgOr("op", -1)
	if op < 0 {
		op = v.Split(v.IntIn("op", 0, vOpCount-1), 0, vOpCount-1)
	}
	switch op {
	case vOpAdd:
		xs := vl.Args("x")
		s.Add(xs...)
		rbt.VInv(s.tree)
		vl.SetAdd(rbt.VPre(root, nil), rbt.VPost(&s.tree.Root, nil, 0), xs, "C04:add")
	case vOpRemove:
		xs := vl.Args("x")
		s.Remove(xs...)
		rbt.VInv(s.tree)
		vl.SetRemove(rbt.VPre(root, nil), rbt.VPost(&s.tree.Root, nil, 0), xs, "C04:remove")
	case vOpContains:
		xs := vl.Args("x")
		v.BeginOp(true, s)
		got := s.Contains(xs...)
		v.EndOp()
		items := rbt.VPost(&s.tree.Root, nil, 0)
		vl.SeqSame(rbt.VPre(root, nil), items, "C18:contains-unchanged")
		vl.SetContains(items, xs, got, "C04:contains")
		if len(xs) == 0 {
			v.Assert(got, "C04:contains-of-nothing-is-true")
		}
	case vOpClear:
		s.Clear()
		rbt.VInv(s.tree)
		v.Assert(v.And(s.Size() == 0, s.Empty()), "C15:clear-empty")
		v.Assert(len(s.Values()) == 0, "C15:clear-values")
	}
	v.Assert(s.Empty() == (s.Size() == 0), "C15:empty")
	v.Assert(s.Size() >= 0, "C15:size-nonneg")
}

// VGSmall builds a TreeSet by the library's own Add of n <= N arbitrary elements (duplicates possible).
func VGSmall() *Set[int] {
	n := v.Split(v.IntIn("n", 0, v.CfgOr("N", 3)), 0, 16)
	s := NewWith[int](vl.Cmp)
	prev := 0
	for i := 0; i < n; i++ {
		e := v.Int("e")
		if i > 0 && v.CfgOr("asc", 0) == 1 { // larger operands at lower cost: one insertion order (ascending, distinct)
			v.Assume(vl.Less(prev, e))
		}
		s.Add(e)
		prev = e
	}
	return s
}

func VHIter() {
	s := VGSmall()
	seq := s.Values()
	containers.VIterStep(func() containers.IteratorWithIndex[int] { it := s.Iterator(); return &it }, seq, s)
}

// VHEnum: Each/Any/All/Find/Select/Map with arbitrary predicate and mapping functions (C14).
func VHEnum() {
	s := VGSmall()
	containers.VEnumStep(containers.VEnum{Recv: s, Inv: func(c any) { rbt.VInv(c.(*Set[int]).tree) }, Indexed: true,
		Seq:    func(c any) ([]int, []int) { vs := c.(*Set[int]).Values(); return containers.VIdx(len(vs)), vs },
		Each:   s.Each, Any: s.Any, All: s.All, Find: s.Find,
		Select: func(f func(a, b int) bool) any { return s.Select(f) },
		Map: func(f func(a, b int) (int, int)) any {
			return s.Map(func(i, x int) int { _, y := f(i, x); return y })
		},
		Build: func(as, bs []int) any { return NewWith[int](s.tree.Comparator, bs...) },
		Touch: func(c any) {
			r := c.(*Set[int])
			for _, x := range r.Values() {
				r.Remove(x)
			}
			r.Add(v.Int("t"))
		},
	})
}

// VHAlgebra: set algebra on two arbitrary sets (C13); "alias" makes them the same object.
func VHAlgebra() {
	a := VGSmall()
	b := a
	if !v.Bool("alias") {
		b = VGSmall()
	}
	sets.VAlgStep(sets.VAlg{A: a, B: b, Inv: func(c any) { rbt.VInv(c.(*Set[int]).tree) }, Has: func(c any, x int) bool { return c.(*Set[int]).Contains(x) }, Ordered: true,
		Apply: func(op int) any {
			switch op {
			case 0:
				return a.Intersection(b)
			case 1:
				return a.Union(b)
			}
			return a.Difference(b)
		},
		Values: func(c any) []int { return c.(*Set[int]).Values() },
		Touch: func(c any, x int) {
			s := c.(*Set[int])
			for _, y := range s.Values() {
				s.Remove(y)
			}
			s.Add(x)
		},
	})
}

// VHSnap: returned slices are snapshots, argument slices are copied, GetSortedValues leaves the container alone (C16).
func VHSnap() {
	c := VGSmall()
	containers.VSnapStep(containers.VSnap{C: c, Mutate: []func(){c.Clear, func() { c.Add(v.Int("m")) }, func() { c.Remove(v.Int("m")) }}, AddArgs: []func([]int){func(a []int) { c.Add(a...) }}, New: func(a []int) containers.Container[int] { return NewWith[int](vl.Cmp, a...) }})
}

var _ = vl.Less

func vJSON(c *Set[int]) containers.VJSON {
	return containers.VJSON{C: c, ToJSON: c.ToJSON, FromJSON: c.FromJSON,
		Marshal: func() ([]byte, error) { return json.Marshal(c) },
		Unmarshal: func(data []byte) error { return json.Unmarshal(data, c) },
		Inv:     func() { rbt.VInv(c.tree) },
		Step:    func() { x := v.Int("sx"); c.Add(x); v.Assert(c.Contains(x), "C12:add-after-load") },
		Fresh:   func() containers.VJSON { return vJSON(NewWith[int](vl.Cmp)) },
		Ref: func(ks, xs []int) ([]int, []int) { return nil, vl.SortedDistinct(xs) },
	}
}

// VHJSONRound: ToJSON / json.Marshal / FromJSON round trip from an arbitrary state (C11).
func VHJSONRound() {
	c := VGSmall()
	containers.VJSONRound(vJSON(c))
}

// VHJSONLoad: FromJSON of an arbitrary document into an arbitrary prior state (C12, C17).
func VHJSONLoad() {
	c := VGSmall()
	containers.VJSONLoad(vJSON(c))
}

// VHString: String() begins with the container's name and is read-only (C15, C18).
func VHString() {
	c := VGSmall()
	v.BeginOp(true, c)
	s := c.String()
	v.EndOp()
	v.Assert(strings.HasPrefix(s, "TreeSet"), "C15:string-begins-with-container-name")
}

// VHHistory: D operations in a row from the constructor (see VMapHistory).
func VHHistory() {
	init := vl.InitArgs() // with initial values only under the natural order (the set model deduplicates with ==)
	s := NewWith[int](vl.Cmp, init...)
	if v.CfgOr("ctor", 0) == 1 { // the default-comparator constructor (cmp.Compare); only meaningful with cmp=0
		s = New[int](init...)
	}
	sets.VSetHistoryFrom(s, vl.DedupFirst(init), false, "TreeSet", func() {
		rbt.VInv(s.tree)
		vals := s.Values()
		for i := 1; i < len(vals); i++ {
			v.Assert(vl.Less(vals[i-1], vals[i]), "C02:values-strictly-ascending")
		}
	})
}
