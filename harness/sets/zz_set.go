package sets

import (
	"strings"

	vl "github.com/emirpasic/gods/v2/zzvlib"
	v "github.com/emirpasic/gods/v2/zzvsup"
)

const (
	VOpAdd = iota
	VOpRemove
	VOpContains
	VOpClear
	VOpObservers
	VOpString
	VOpCount
)

func vHas(seq []int, x int) bool {
	ok := false
	for _, y := range seq {
		ok = v.Or(ok, vl.Equiv(y, x)) // == for the hash sets; comparator equivalence for TreeSet
	}
	return ok
}

// VSetStep: one variadic operation on a set whose members are exactly pre (pairwise distinct; in insertion order
// when ordered). Checks C04 (membership, size, each member once) and, for ordered sets, C09 (insertion order).
func VSetStep(s Set[int], pre []int, ordered bool, name string, inv func()) []int {
	op := v.CfgOr("op", -1)
	if op < 0 {
		op = v.Split(v.IntIn("op", 0, VOpCount-1), 0, VOpCount-1)
	}
	want := pre
	switch op {
	case VOpAdd:
		xs := vl.Args("x")
		s.Add(xs...)
		want = append([]int{}, pre...)
		for _, x := range xs {
			if !vHas(want, x) { // decided by the path condition the library's own lookups established
				want = append(want, x)
			}
		}
	case VOpRemove:
		xs := vl.Args("x")
		s.Remove(xs...)
		want = []int{}
		for _, y := range pre {
			if !vHas(xs, y) {
				want = append(want, y)
			}
		}
	case VOpContains:
		xs := vl.Args("x")
		v.BeginOp(true, s)
		got := s.Contains(xs...)
		v.EndOp()
		exp := true
		for _, x := range xs {
			exp = v.And(exp, vHas(pre, x))
		}
		v.Assert(got == exp, "C04:contains")
	case VOpClear:
		s.Clear()
		want = []int{}
	case VOpObservers:
	case VOpString:
		v.BeginOp(true, s)
		str := s.String()
		v.EndOp()
		v.Assert(strings.HasPrefix(str, name), "C15:string-begins-with-container-name")
	}
	inv()
	v.BeginOp(true, s)
	got := s.Values()
	_, _ = s.Size(), s.Empty()
	v.EndOp()
	v.Assert(len(got) == len(want), "C04:values-length")
	vl.Distinct(got, "C04:member-listed-twice")
	if len(got) == len(want) {
		if ordered {
			for i := range want {
				v.Assert(got[i] == want[i], "C09,C04:values-in-insertion-order")
			}
		} else {
			p := v.Int("probe")
			v.Assert(vHas(got, p) == vHas(want, p), "C04:values-members")
		}
	}
	sz := s.Size()
	v.Assert(sz == len(want), "C04:size")
	v.Assert(sz == len(got), "C15:size-values")
	v.Assert(sz >= 0, "C15:size-nonneg")
	v.Assert(s.Empty() == (sz == 0), "C15:empty")
	// membership after the step, for an arbitrary probe
	q := v.Int("q")
	v.Assert(s.Contains(q) == vHas(want, q), "C04:membership-after")
	return want
}

// VSetHistory: D operations in a row from a freshly constructed set.
func VSetHistory(s Set[int], ordered bool, name string, inv func()) {
	VSetHistoryFrom(s, nil, ordered, name, inv)
}

// VSetHistoryFrom: the same from a set constructed with initial values (members = their first occurrences).
func VSetHistoryFrom(s Set[int], members []int, ordered bool, name string, inv func()) {
	D := v.CfgOr("D", 3)
	for i := 0; i < D; i++ {
		members = VSetStep(s, members, ordered, name, inv)
	}
}
