package sets

import (
	vl "github.com/emirpasic/gods/v2/zzvlib"
	v "github.com/emirpasic/gods/v2/zzvsup"
)

// VAlg presents two sets of one kind to the shared set-algebra harness (C13).
type VAlg struct {
	A, B    any
	Apply   func(op int) any // 0 Intersection, 1 Union, 2 Difference of A with B
	Values  func(c any) []int
	Touch   func(c any, x int) // mutate c: remove everything, add x
	Ordered bool               // TreeSet: Values() ascending by the operands' comparator
	Hash    bool               // HashSet: Values() in no particular order
	Inv     func(c any)        // representation invariant of a set of this kind (the result must be a sound set)
	Has     func(c any, x int) bool
}

func vMember(seq []int, p int) bool {
	ok := false
	for _, y := range seq {
		ok = v.Or(ok, vl.Equiv(y, p))
	}
	return ok
}

// vSameSeq: same members (hash sets enumerate in no particular order, so membership of an arbitrary probe and
// the length are compared; ordered sets are compared position by position).
func vSameSeq(a, b []int, label string) {
	v.Assert(len(a) == len(b), label)
	if len(a) != len(b) {
		return
	}
	if vUnordered {
		q := v.Int("q")
		ina, inb := false, false
		for i := range a {
			ina, inb = v.Or(ina, a[i] == q), v.Or(inb, b[i] == q)
		}
		v.Assert(ina == inb, label)
		return
	}
	for i := range a {
		v.Assert(a[i] == b[i], label)
	}
}

var vUnordered bool

// VAlgStep: Intersection / Union / Difference of two arbitrary sets (possibly the same object, possibly empty,
// either one larger): exact membership for an arbitrary probe, operands not written, result shares no object
// with them and later changes to any of the three do not reach the others.
func VAlgStep(g VAlg) {
	op := v.CfgOr("op", -1)
	if op < 0 {
		op = v.Split(v.IntIn("op", 0, 2), 0, 2)
	}
	vUnordered = g.Hash
	av, bv := g.Values(g.A), g.Values(g.B)
	v.BeginOp(true, g.A, g.B)
	r := g.Apply(op)
	v.EndOp()
	g.Inv(r)
	rv := g.Values(r)
	p := v.Int("probe")
	v.Assert(g.Has(r, p) == vMember(rv, p), "C13:result-contains-disagrees-with-its-values")
	ina, inb, inr := vMember(av, p), vMember(bv, p), vMember(rv, p)
	switch op {
	case 0:
		v.Assert(inr == v.And(ina, inb), "C13:intersection-members")
	case 1:
		v.Assert(inr == v.Or(ina, inb), "C13:union-members")
	case 2:
		v.Assert(inr == v.And(ina, !inb), "C13:difference-members")
	}
	for i := 0; i < len(rv); i++ {
		for j := i + 1; j < len(rv); j++ {
			v.Assert(!vl.Equiv(rv[i], rv[j]), "C13:result-lists-member-twice")
		}
	}
	if g.Ordered {
		for i := 1; i < len(rv); i++ {
			v.Assert(vl.Less(rv[i-1], rv[i]), "C13:result-not-ordered-by-operands-comparator")
		}
	}
	vSameSeq(g.Values(g.A), av, "C13,C18:first-operand-changed")
	vSameSeq(g.Values(g.B), bv, "C13,C18:second-operand-changed")
	v.Assert(!v.SameObject(r, g.A), "C13:result-is-an-operand")
	v.Assert(!v.SameObject(r, g.B), "C13:result-is-an-operand")
	v.Assert(v.Disjoint(r, g.A), "C13:result-shares-state-with-operand")
	v.Assert(v.Disjoint(r, g.B), "C13:result-shares-state-with-operand")
	// later changes do not propagate
	g.Touch(r, v.Int("t1"))
	vSameSeq(g.Values(g.A), av, "C13:operand-changed-when-result-was-mutated")
	vSameSeq(g.Values(g.B), bv, "C13:operand-changed-when-result-was-mutated")
	rv2 := g.Values(r)
	g.Touch(g.A, v.Int("t2"))
	g.Touch(g.B, v.Int("t3"))
	vSameSeq(g.Values(r), rv2, "C13:result-changed-when-operand-was-mutated")
}
