package linkedhashset

import (
	"github.com/emirpasic/gods/v2/containers"
	"github.com/emirpasic/gods/v2/lists/doublylinkedlist"
	"github.com/emirpasic/gods/v2/sets"
	v "github.com/emirpasic/gods/v2/zzvsup"
)

// VGSet is an arbitrary LinkedHashSet of n <= N pairwise distinct members: the table holds exactly the members
// of the order list.
func VGSet() (*Set[int], []int) {
	n := v.Split(v.IntIn("n", 0, v.CfgOr("N", 3)), 0, 16)
	s := &Set[int]{table: make(map[int]struct{})}
	keys := make([]int, n)
	for i := 0; i < n; i++ {
		k := v.Int("e")
		for j := 0; j < i; j++ {
			v.Assume(k != keys[j])
		}
		keys[i] = k
		s.table[k] = struct{}{}
	}
	s.ordering = doublylinkedlist.VGListOf(keys)
	return s, keys
}

// VInv: order list valid, duplicate free, and set(list) = keys(table).
func VInv(s *Set[int]) {
	v.Assert(s.table != nil, "inv-map-nil")
	v.Assert(s.ordering != nil, "inv-list-nil")
	doublylinkedlist.VInv(s.ordering)
	vals := s.ordering.Values()
	v.Assert(len(vals) == len(s.table), "inv-table-list-size")
	for _, x := range vals {
		_, ok := s.table[x]
		v.Assert(ok, "inv-list-member-not-in-table")
	}
}

func VHSetStep() {
	s, pre := VGSet()
	sets.VSetStep(s, pre, true, func() { VInv(s) })
}

func VHIter() {
	s, pre := VGSet()
	containers.VIterStep(func() containers.IteratorWithIndex[int] { it := s.Iterator(); return &it }, pre, s)
}
