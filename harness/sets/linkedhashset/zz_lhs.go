package linkedhashset

import (
	vl "github.com/emirpasic/gods/v2/zzvlib"
	"encoding/json"
	"github.com/emirpasic/gods/v2/containers"
	"github.com/emirpasic/gods/v2/lists/doublylinkedlist"
	"github.com/emirpasic/gods/v2/sets"
	v "github.com/emirpasic/gods/v2/zzvsup"
)

// VGSet is an arbitrary LinkedHashSet of n <= N pairwise distinct members: the table holds exactly the members
// of the order list.
func VGSet() (*Set[int], []int) {
	n := v.Split(v.IntIn("n", 0, v.CfgOr("N", 3)), 0, 16)
	s := &Set[int]{table: make(map[int]struct{})}
	keys := make([]int, n)
	for i := 0; i < n; i++ {
		k := v.Int("e")
		for j := 0; j < i; j++ {
			v.Assume(k != keys[j])
		}
		keys[i] = k
		s.table[k] = struct{}{}
	}
	s.ordering = doublylinkedlist.VGListOf(keys)
	return s, keys
}

// VInv: order list valid, duplicate free, and set(list) = keys(table).
func VInv(s *Set[int]) {
	v.Assert(s.table != nil, "inv-map-nil")
	v.Assert(s.ordering != nil, "inv-list-nil")
	doublylinkedlist.VInv(s.ordering)
	vals := s.ordering.Values()
	v.Assert(len(vals) == len(s.table), "inv-table-list-size")
	for _, x := range vals {
		_, ok := s.table[x]
		v.Assert(ok, "inv-list-member-not-in-table")
	}
}

func VHSetStep() {
	s, pre := VGSet()
	sets.VSetStep(s, pre, true, "LinkedHashSet", func() { VInv(s) })
}

func VHIter() {
	s, pre := VGSet()
	containers.VIterStep(func() containers.IteratorWithIndex[int] { it := s.Iterator(); return &it }, pre, s)
}

func vSetOnly() *Set[int] { s, _ := VGSet(); return s }

// VHEnum: Each/Any/All/Find/Select/Map with arbitrary predicate and mapping functions (C14).
func VHEnum() {
	s := vSetOnly()
	containers.VEnumStep(containers.VEnum{Recv: s, Inv: func(c any) { VInv(c.(*Set[int])) }, Indexed: true,
		Seq:    func(c any) ([]int, []int) { vs := c.(*Set[int]).Values(); return containers.VIdx(len(vs)), vs },
		Each:   s.Each, Any: s.Any, All: s.All, Find: s.Find,
		Select: func(f func(a, b int) bool) any { return s.Select(f) },
		Map: func(f func(a, b int) (int, int)) any {
			return s.Map(func(i, x int) int { _, y := f(i, x); return y })
		},
		Build: func(as, bs []int) any { return New(bs...) },
		Touch: func(c any) {
			r := c.(*Set[int])
			for _, x := range r.Values() {
				r.Remove(x)
			}
			r.Add(v.Int("t"))
		},
	})
}

// VHAlgebra: set algebra on two arbitrary sets (C13); "alias" makes them the same object.
func VHAlgebra() {
	a := vSetOnly()
	b := a
	if !v.Bool("alias") {
		b = vSetOnly()
	}
	sets.VAlgStep(sets.VAlg{A: a, B: b, Inv: func(c any) { VInv(c.(*Set[int])) }, Has: func(c any, x int) bool { return c.(*Set[int]).Contains(x) }, Ordered: false,
		Apply: func(op int) any {
			switch op {
			case 0:
				return a.Intersection(b)
			case 1:
				return a.Union(b)
			}
			return a.Difference(b)
		},
		Values: func(c any) []int { return c.(*Set[int]).Values() },
		Touch: func(c any, x int) {
			s := c.(*Set[int])
			for _, y := range s.Values() {
				s.Remove(y)
			}
			s.Add(x)
		},
	})
}

// VHSnap: returned slices are snapshots, argument slices are copied, GetSortedValues leaves the container alone (C16).
func VHSnap() {
	c, _ := VGSet()
	containers.VSnapStep(containers.VSnap{C: c, Mutate: []func(){c.Clear, func() { c.Add(v.Int("m")) }, func() { c.Remove(v.Int("m")) }}, AddArgs: []func([]int){func(a []int) { c.Add(a...) }}, New: func(a []int) containers.Container[int] { return New(a...) }})
}

var _ = vl.Less

func vJSON(c *Set[int]) containers.VJSON {
	return containers.VJSON{C: c, ToJSON: c.ToJSON, FromJSON: c.FromJSON,
		Marshal: func() ([]byte, error) { return json.Marshal(c) },
		Unmarshal: func(data []byte) error { return json.Unmarshal(data, c) },
		Inv:     func() { VInv(c) },
		Step:    func() { x := v.Int("sx"); c.Add(x); v.Assert(c.Contains(x), "C12:add-after-load") },
		Fresh:   func() containers.VJSON { return vJSON(New[int]()) },
		Ref: func(ks, xs []int) ([]int, []int) { return nil, vl.DedupFirst(xs) },
	}
}

// VHJSONRound: ToJSON / json.Marshal / FromJSON round trip from an arbitrary state (C11).
func VHJSONRound() {
	c, _ := VGSet()
	containers.VJSONRound(vJSON(c))
}

// VHJSONLoad: FromJSON of an arbitrary document into an arbitrary prior state (C12, C17).
func VHJSONLoad() {
	c, _ := VGSet()
	containers.VJSONLoad(vJSON(c))
}

// VHHistory: D operations in a row from the constructor (see VMapHistory).
func VHHistory() {
	init := vl.InitArgs()
	s := New[int](init...)
	sets.VSetHistoryFrom(s, vl.DedupFirst(init), true, "LinkedHashSet", func() { VInv(s) })
}
